package main

import (
	"fmt"
	"strings"

	"github.com/influxdata/influxql"
)

// C16: statement separation; whitespace substitution and comments in whitespace gaps are neutral.

var wsSubst = []string{"\t", "\n", "\r", "\r\n", "  ", " \t\n ",
	// long runs: however much white space a gap holds, it is one gap
	strings.Repeat(" ", 65), strings.Repeat("\t", 129), strings.Repeat(" \r\n", 70)}
var commentSubst = []string{" /*c*/ ", " -- c\n ", " --c\n ", " --the field\n ", " --1\n", " --\r\n ", "\n-- x y z\n", " /* a * / b */ ", "\t/**/\t", " /* -- */ ", " /***/ ", " /****/ ", " /*** banner ***/ ", " /* ** * ***/ ", " --\n ", " /* \n */ "}

// posOfOffset: line/char of a byte offset in an ASCII, CR-free text
func posOfOffset(text string, off int) influxql.Pos {
	line, col := 0, 0
	for i := 0; i < off && i < len(text); i++ {
		if text[i] == '\n' {
			line++
			col = 0
		} else {
			col++
		}
	}
	return influxql.Pos{Line: line, Char: col}
}

func parseWithPeeks(text string) (influxql.Statement, error, []influxql.Pos) {
	influxql.VerifResetPeeks()
	st, err := influxql.ParseStatement(text)
	return st, err, influxql.VerifPeeks()
}

// asciiNames: the comment test uses ASCII statements so that byte offsets are rune offsets
func isASCII(s string) bool {
	for i := 0; i < len(s); i++ {
		if s[i] >= 128 {
			return false
		}
	}
	return true
}

func c16Gaps(o *out, r *rng, kind string, allGaps bool) {
	// every other statement is written with a blank at every boundary that allows one, so that the gaps before commas,
	// inside parentheses and around dots and operators are gaps of the text too
	g := &gen{r: r, plain: true, wide: r.chance(1, 2)}
	st := g.statement(kind)
	_ = st
	text := g.join()
	gaps := append([]int(nil), g.gaps...)
	if !isASCII(text) || strings.ContainsAny(text, "\r") {
		return
	}
	base, err, peeks := parseWithPeeks(text)
	if err != nil {
		return
	}
	addParseStmtCase(o, text, nil)
	want := stmtSexp(base)
	peekAt := map[influxql.Pos]bool{}
	for _, p := range peeks {
		peekAt[p] = true
	}
	o.nontrivial(text)
	o.sample(text)
	for gi := 0; gi+1 < len(gaps); gi += 2 {
		if !allGaps && !r.chance(1, 3) {
			continue
		}
		s, e := gaps[gi], gaps[gi+1]
		// inside a quoted name or string the blank is not a gap between tokens: the generator records only real gaps
		for _, w := range wsSubst {
			variant := text[:s] + w + text[e:]
			o.checked()
			o.count("ws")
			st2, err2, pn := addParseStmtCase(o, variant, nil)
			rp := map[string]interface{}{"op": "gap", "text": text, "variant": variant}
			if pn != nil || err2 != nil {
				o.fail("", fmt.Sprintf("%q parses but the whitespace variant %q does not: %v %v", text, variant, err2, pn), rp)
			} else if stmtSexp(st2) != want {
				o.fail("", fmt.Sprintf("whitespace variant %q of %q builds a different AST: %s", variant, text, st2.String()), rp)
			}
		}
		probe := peekAt[posOfOffset(text, e)] || peekAt[posOfOffset(text, s)]
		for _, w := range commentSubst {
			variant := text[:s] + w + text[e:]
			o.checked()
			o.count("comment")
			st2, err2, pn := addParseStmtCase(o, variant, nil)
			rp := map[string]interface{}{"op": "gap", "text": text, "variant": variant}
			class := ""
			if probe {
				class = "C16-comment-at-regex-probe"
			}
			if pn != nil || err2 != nil {
				o.fail(class, fmt.Sprintf("%q parses but with a comment in a whitespace gap, %q, it does not: %v %v", text, variant, err2, pn), rp)
			} else if stmtSexp(st2) != want {
				o.fail(class, fmt.Sprintf("comment variant %q of %q builds a different AST: %s", variant, text, st2.String()), rp)
			}
		}
	}
}

func c16Query(o *out, r *rng) {
	k := r.intn(5)
	kinds := make([]string, k)
	for i := range kinds {
		kinds[i] = pick(r, stmtKinds)
	}
	c16QueryOf(o, r, kinds)
}

// c16QueryOf: statements of the given kinds joined into one query; each must come out as it does alone (compared
// after the WHOLE query has been parsed: nothing a later statement does may reach back into an earlier one)
func c16QueryOf(o *out, r *rng, kinds []string) {
	k := len(kinds)
	var texts []string
	var asts []string
	for i := 0; i < k; i++ {
		t, _, _ := genStatement(r, kinds[i], r.chance(1, 2))
		st, err := influxql.ParseStatement(t)
		if err != nil {
			return
		}
		// a statement that ParseStatement accepts only as a prefix is not a statement of its own
		if q, err := influxql.ParseQuery(t); err != nil || len(q.Statements) != 1 {
			return
		}
		texts = append(texts, t)
		asts = append(asts, stmtSexp(st))
	}
	seps := []string{";", " ; ", ";;", ";\n", "\n;\n;", "; ;\t;", ";-- c\n", "; /* c */", ";/* c */ "}
	var b strings.Builder
	if r.chance(1, 3) {
		b.WriteString(pick(r, []string{";", " ", ";; ", "\n"}))
	}
	for i, t := range texts {
		if i > 0 {
			b.WriteString(pick(r, seps))
		}
		b.WriteString(t)
	}
	if r.chance(1, 2) {
		b.WriteString(pick(r, []string{";", " ; ", "\n", ";;"}))
	}
	qtext := b.String()
	q, err, pn := addParseQueryCase(o, qtext, nil)
	o.checked()
	o.count(fmt.Sprintf("query:k=%d", k))
	rp := map[string]interface{}{"op": "query", "text": qtext}
	if pn != nil || err != nil {
		class := ""
		if strings.Contains(qtext, ";/*") && err != nil && strings.Contains(err.Error(), "expected regex") {
			class = "C16-slash-after-source-follow"
		}
		o.fail(class, fmt.Sprintf("ParseQuery(%q) fails although each of its %d statements parses alone: %v %v", qtext, k, err, pn), rp)
		return
	}
	if len(q.Statements) != k {
		o.fail("", fmt.Sprintf("ParseQuery(%q) yields %d statements, expected %d", qtext, len(q.Statements), k), rp)
		return
	}
	for i, s := range q.Statements {
		if stmtSexp(s) != asts[i] {
			o.fail("", fmt.Sprintf("statement %d of ParseQuery(%q) differs from parsing it alone: %s", i, qtext, s.String()), rp)
		}
	}
	// missing separator
	if k >= 2 {
		miss := strings.Join(texts, " ")
		o.checked()
		o.count("missing-separator")
		if _, err, _ := addParseQueryCase(o, miss, nil); err == nil {
			o.fail("", fmt.Sprintf("ParseQuery(%q) accepts statements without a separating semicolon", miss), map[string]interface{}{"op": "query-missing", "text": miss})
		}
	}
	o.nontrivial(qtext)
}

func propC16(o *out, r *rng, thorough bool) {
	n := 6
	nq := 400
	if thorough {
		n = 300
		nq = 40000
	}
	for _, kind := range stmtKinds {
		for i := 0; i < n; i++ {
			c16Gaps(o, r, kind, thorough || i == 0)
		}
	}
	for i := 0; i < nq; i++ {
		c16Query(o, r)
	}
	// long queries: nothing carries over from one statement to the next, however many there are and whatever they
	// contain (calls without arguments, parentheses, subqueries, errors' worth of nesting)
	for _, unit := range []string{"SELECT now() FROM m", "SELECT count() FROM m WHERE time > now()", "SELECT ((a)) FROM (SELECT b FROM m)", "SHOW DATABASES", "SELECT f(g(h())) FROM m GROUP BY time(1m, now())",
		"SELECT v FROM m WHERE (((x = 1)))", "DROP SERIES FROM m WHERE (host = 'a')"} {
		for _, n := range []int{201, 257, 1025} {
			if !thorough && n > 300 {
				continue
			}
			st, err := influxql.ParseStatement(unit)
			if err != nil {
				continue
			}
			qt := strings.Repeat(unit+";", n-1) + unit
			o.checked()
			o.count("long-query")
			q, qerr := influxql.ParseQuery(qt)
			rp := map[string]interface{}{"op": "long_query", "text": unit, "n": n}
			if qerr != nil {
				o.fail("", fmt.Sprintf("ParseQuery of %d copies of %q joined by ';' fails: %v", n, unit, qerr), rp)
				continue
			}
			if len(q.Statements) != n {
				o.fail("", fmt.Sprintf("ParseQuery of %d copies of %q yields %d statements", n, unit, len(q.Statements)), rp)
				continue
			}
			want := stmtSexp(st)
			for i, s := range q.Statements {
				if stmtSexp(s) != want {
					o.fail("", fmt.Sprintf("statement %d of %d copies of %q differs from parsing it alone: %s", i, n, unit, s.String()), rp)
					break
				}
			}
		}
	}
	// several statements of the SAME kind in one query (two lists of keys, two lists of destinations, two password
	// clauses ...): what the parser keeps between statements must not leak from one into the other
	for _, kind := range stmtKinds {
		for rep := 0; rep < 3; rep++ {
			c16QueryOf(o, r, []string{kind, kind})
			c16QueryOf(o, r, []string{kind, kind, kind})
		}
	}
	for _, qt := range []string{"SHOW TAG VALUES FROM cpu WITH KEY IN (region, host); SHOW TAG VALUES FROM mem WITH KEY IN (dc, rack)",
		"SHOW TAG VALUES WITH KEY IN (a, b, c); SHOW TAG VALUES WITH KEY IN (d); SHOW TAG VALUES WITH KEY IN (e, f)",
		"CREATE SUBSCRIPTION s1 ON db.rp DESTINATIONS ALL 'udp://a:9001', 'udp://b:9002'; CREATE SUBSCRIPTION s2 ON db.rp DESTINATIONS ANY 'udp://c:9003'",
		"SELECT f(a, b, c) FROM m; SELECT g(d) FROM n", "SELECT mean(v) FROM m GROUP BY time(1h, -15m); SELECT mean(v) FROM m GROUP BY time(15m)", "SELECT v FROM m WHERE time > -30s; SELECT mean(v) FROM m GROUP BY time(30s); SELECT -30s FROM m",
		"SELECT a + b * c FROM m WHERE x = 1 OR y = 2 AND z = 3; SELECT d - e FROM m WHERE p = 1; SELECT g % h FROM m WHERE q = 2", "SELECT -a, -(b + c) FROM m; SELECT -d FROM n; SELECT e * -f FROM o", "SELECT a, b FROM m, n GROUP BY x, y; SELECT c FROM o GROUP BY z"} {
		o.checked()
		o.count("same-kind")
		q, err := influxql.ParseQuery(qt)
		rp := map[string]interface{}{"op": "query", "text": qt}
		if err != nil {
			o.fail("", fmt.Sprintf("ParseQuery(%q) fails: %v", qt, err), rp)
			continue
		}
		for i, part := range strings.Split(qt, ";") {
			alone, err := influxql.ParseStatement(part)
			if err != nil || i >= len(q.Statements) || stmtSexp(alone) != stmtSexp(q.Statements[i]) {
				o.fail("", fmt.Sprintf("statement %d of ParseQuery(%q) differs from parsing it alone", i, qt), rp)
				break
			}
		}
	}
	// a block comment whose closing star is the 4096th byte of the text and whose closing slash the 4097th (and the
	// neighbouring alignments): the end of a comment is found wherever the reader's buffer happens to end
	for _, base := range []string{"SELECT x FROM m WHERE y = 1", "SELECT mean(v) FROM a, b GROUP BY time(1m), h LIMIT 3", "SHOW TAG KEYS ON db FROM m WHERE x = 'a'"} {
		want, err := influxql.ParseStatement(base)
		if err != nil {
			continue
		}
		for i := 0; i < len(base); i++ {
			if base[i] != ' ' {
				continue
			}
			for _, seam := range []int{4096, 8192} {
				for off := -2; off <= 2; off++ {
					pad := seam + off - 1 - (i + 3)
					text := base[:i] + " /*" + strings.Repeat("c", pad) + "*/ " + base[i+1:]
					o.count("comment-at-seam")
					o.checked()
					got, err := influxql.ParseStatement(text)
					if err != nil && strings.Contains(err.Error(), "regex") {
						continue // the known findings about comments where a regular expression may start
					}
					if err != nil || stmtSexp(got) != stmtSexp(want) {
						o.fail("", fmt.Sprintf("%q with a %d-byte block comment in the gap at %d (closing at byte %d): %v", base, pad+4, i, seam+off, err),
							map[string]interface{}{"op": "comment_seam", "text": base, "gap": i, "pad": pad})
					}
				}
			}
		}
	}
	// every statement kind directly followed by a single separator and another statement
	for _, kind := range stmtKinds {
		reps := 6
		if kind == "names" || kind == "simple" || kind == "showstats" {
			reps = 40
		}
		for i := 0; i < reps; i++ {
			t, _, _ := genStatement(r, kind, true)
			st, err := influxql.ParseStatement(t)
			if err != nil {
				continue
			}
			for _, sep := range []string{";", " ; "} {
				qt := t + sep + "SHOW DATABASES"
				q, qerr, _ := addParseQueryCase(o, qt, nil)
				o.checked()
				o.count("followed")
				rp := map[string]interface{}{"op": "query", "text": qt}
				if qerr != nil {
					o.fail("", fmt.Sprintf("ParseQuery(%q) fails although both statements parse alone: %v", qt, qerr), rp)
				} else if len(q.Statements) != 2 || stmtSexp(q.Statements[0]) != stmtSexp(st) {
					o.fail("", fmt.Sprintf("ParseQuery(%q) does not yield the two statements: %s", qt, q.String()), rp)
				}
			}
		}
	}
	{ // witness of finding C16-slash-after-source-follow
		w := "SELECT x FROM m;/* c */ SELECT y FROM n"
		_, err, _ := addParseQueryCase(o, w, nil)
		o.checked()
		if err != nil {
			o.fail("C16-slash-after-source-follow", fmt.Sprintf("ParseQuery(%q) fails although each statement parses alone: %v", w, err), map[string]interface{}{"op": "query", "text": w})
		}
	}
	for _, w := range []string{"", ";", " ; ; ", "SELECT 1 FROM m", "SELECT 1 FROM m;", ";SELECT 1 FROM m;;SELECT 2 FROM n;"} {
		addParseQueryCase(o, w, nil)
	}
}

func init() {
	props["C16"] = propC16
	replayers["gap"] = func(o *out, rp map[string]interface{}) {
		a, e1 := influxql.ParseStatement(rpStr(rp, "text"))
		b, e2 := influxql.ParseStatement(rpStr(rp, "variant"))
		o.checked()
		if e1 != nil {
			return
		}
		if e2 != nil || stmtSexp(a) != stmtSexp(b) {
			o.fail("", "variant still parses differently", rp)
		}
	}
	replayers["query"] = func(o *out, rp map[string]interface{}) {
		o.checked()
		if _, err := influxql.ParseQuery(rpStr(rp, "text")); err != nil {
			o.fail("", "still rejected: "+err.Error(), rp)
		}
	}
	replayers["query-missing"] = func(o *out, rp map[string]interface{}) {
		o.checked()
		if _, err := influxql.ParseQuery(rpStr(rp, "text")); err == nil {
			o.fail("", "still accepted", rp)
		}
	}
}
