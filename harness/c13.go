package main

import (
	"fmt"
	"strings"
	"time"

	"github.com/influxdata/influxql"
)

// C13: every public operation on a parsed statement returns a value or an error; none panics.

type c13Mapper struct{ variant int }

func (m c13Mapper) FieldDimensions(ms *influxql.Measurement) (map[string]influxql.DataType, map[string]struct{}, error) {
	switch m.variant {
	case 0:
		return map[string]influxql.DataType{"value": influxql.Float, "n": influxql.Integer, "s": influxql.String, "b": influxql.Boolean, "u": influxql.Unsigned},
			map[string]struct{}{"host": {}, "region": {}}, nil
	case 1:
		return nil, nil, nil
	case 2:
		return nil, nil, fmt.Errorf("no such measurement")
	default:
		return map[string]influxql.DataType{"host": influxql.Float, "time": influxql.Integer}, map[string]struct{}{"host": {}, "value": {}}, nil
	}
}
func (m c13Mapper) MapType(ms *influxql.Measurement, field string) influxql.DataType {
	if m.variant == 1 {
		return influxql.Unknown
	}
	switch field {
	case "value":
		return influxql.Float
	case "n":
		return influxql.Integer
	case "host", "region":
		return influxql.Tag
	case "s":
		return influxql.String
	}
	return influxql.Unknown
}

type c13Op struct {
	name string
	f    func(st influxql.Statement)
}

func onSelect(f func(q *influxql.SelectStatement)) func(influxql.Statement) {
	return func(st influxql.Statement) {
		switch s := st.(type) {
		case *influxql.SelectStatement:
			f(s)
		case *influxql.ExplainStatement:
			f(s.Statement)
		case *influxql.CreateContinuousQueryStatement:
			f(s.Source)
		}
	}
}

func conditionOf(st influxql.Statement) influxql.Expr {
	switch s := st.(type) {
	case *influxql.SelectStatement:
		return s.Condition
	case *influxql.ExplainStatement:
		return s.Statement.Condition
	case *influxql.DeleteSeriesStatement:
		return s.Condition
	case *influxql.DropSeriesStatement:
		return s.Condition
	case *influxql.ShowSeriesStatement:
		return s.Condition
	case *influxql.ShowMeasurementsStatement:
		return s.Condition
	case *influxql.ShowTagKeysStatement:
		return s.Condition
	case *influxql.ShowTagValuesStatement:
		return s.Condition
	case *influxql.ShowSeriesCardinalityStatement:
		return s.Condition
	}
	return nil
}

var c13Now = time.Unix(1700000000, 5).UTC()

var c13Ops = []c13Op{
	{"String", func(st influxql.Statement) { _ = st.String() }},
	{"RequiredPrivileges", func(st influxql.Statement) { _, _ = st.RequiredPrivileges() }},
	{"Walk", func(st influxql.Statement) { influxql.WalkFunc(st, func(influxql.Node) {}) }},
	{"RewriteFunc(identity)", func(st influxql.Statement) {
		if st2, err := influxql.ParseStatement(st.String()); err == nil { // a private copy: Rewrite works in place
			_ = influxql.RewriteFunc(st2, func(n influxql.Node) influxql.Node { return n })
			_ = st2.String()
		}
	}},
	{"RewriteExpr(identity, condition)", func(st influxql.Statement) {
		if c := conditionOf(st); c != nil {
			_ = influxql.RewriteExpr(influxql.CloneExpr(c), func(e influxql.Expr) influxql.Expr { return e })
		}
	}},
	{"DefaultDatabase", func(st influxql.Statement) {
		if d, ok := st.(influxql.HasDefaultDatabase); ok {
			_ = d.DefaultDatabase()
		}
	}},
	{"Clone", onSelect(func(q *influxql.SelectStatement) { _ = q.Clone().String() })},
	{"ColumnNames", onSelect(func(q *influxql.SelectStatement) { _ = q.ColumnNames() })},
	{"GroupByInterval", onSelect(func(q *influxql.SelectStatement) { _, _ = q.GroupByInterval() })},
	{"GroupByOffset", onSelect(func(q *influxql.SelectStatement) { _, _ = q.GroupByOffset() })},
	{"Dimensions.Normalize", onSelect(func(q *influxql.SelectStatement) { _, _ = q.Dimensions.Normalize() })},
	{"FieldExprByName", onSelect(func(q *influxql.SelectStatement) {
		for _, n := range []string{"value", "host", "", "top", "a"} {
			_, _ = q.FieldExprByName(n)
		}
	})},
	{"Fields.Names", onSelect(func(q *influxql.SelectStatement) { _ = q.Fields.Names(); _ = q.Fields.AliasNames(); _ = q.Fields.String() })},
	{"HasWildcard", onSelect(func(q *influxql.SelectStatement) { _ = q.HasWildcard(); _ = q.HasFieldWildcard(); _ = q.HasDimensionWildcard(); _ = q.TimeAscending() })},
	{"Reduce", onSelect(func(q *influxql.SelectStatement) { _ = q.Reduce(&influxql.NowValuer{Now: c13Now}).String() })},
	// what a query planner does next: every accessor on the reduced statement (now() folded to an instant, arithmetic folded)
	{"accessors after Reduce", onSelect(func(q *influxql.SelectStatement) {
		for _, loc := range []*time.Location{nil, time.FixedZone("z", 3600)} {
			r := q.Reduce(&influxql.NowValuer{Now: c13Now, Location: loc})
			_, _ = r.GroupByInterval()
			_, _ = r.GroupByOffset()
			_, _ = r.Dimensions.Normalize()
			_ = r.ColumnNames()
			_ = r.String()
			_, _, _ = influxql.ConditionExpr(r.Condition, nil)
			if rr, err := r.RewriteFields(c13Mapper{0}); err == nil && rr != nil {
				_, _ = rr.GroupByOffset()
			}
		}
	})},
	// what the query engine does in this order: interval first (it is remembered), expansion on a copy, then the other
	// accessors on the result - whose GROUP BY list is a different one
	{"interval, RewriteFields, offset", onSelect(func(q *influxql.SelectStatement) {
		_, _ = q.GroupByInterval()
		_, _ = q.GroupByOffset()
		_ = q.ColumnNames()
		for v := 0; v < 4; v++ {
			if r, err := q.RewriteFields(c13Mapper{v}); err == nil && r != nil {
				_, _ = r.GroupByOffset()
				_, _ = r.GroupByInterval()
				_, _ = r.Dimensions.Normalize()
				_ = r.ColumnNames()
				c := r.Clone()
				c.Dimensions = nil
				_, _ = c.GroupByOffset()
				_, _ = c.GroupByInterval()
				if len(r.Dimensions) > 0 {
					c.Dimensions = r.Dimensions[:1]
					_, _ = c.GroupByOffset()
				}
			}
		}
	})},
	{"RewriteFields", onSelect(func(q *influxql.SelectStatement) {
		for v := 0; v < 4; v++ {
			if r, err := q.RewriteFields(c13Mapper{v}); err == nil && r != nil {
				_ = r.String()
				_ = r.ColumnNames()
			}
		}
	})},
	{"RewriteRegexConditions", onSelect(func(q *influxql.SelectStatement) { c := q.Clone(); c.RewriteRegexConditions(); _ = c.String() })},
	{"RewriteDistinct", onSelect(func(q *influxql.SelectStatement) { c := q.Clone(); c.RewriteDistinct(); _ = c.String() })},
	{"RewriteTimeFields", onSelect(func(q *influxql.SelectStatement) { c := q.Clone(); c.RewriteTimeFields(); _ = c.String() })},
	{"SetTimeRange", onSelect(func(q *influxql.SelectStatement) {
		c := q.Clone()
		_ = c.SetTimeRange(time.Unix(0, 0), time.Unix(3600, 0))
		_ = c.SetTimeRange(time.Unix(3600, 0), time.Unix(7200, 0))
		_ = c.String()
	})},
	{"EvalType", onSelect(func(q *influxql.SelectStatement) {
		for _, f := range q.Fields {
			_ = influxql.EvalType(f.Expr, q.Sources, c13Mapper{0})
			tv := influxql.TypeValuerEval{TypeMapper: c13Mapper{0}, Sources: q.Sources}
			_, _ = tv.EvalType(f.Expr)
		}
	})},
	{"ConditionExpr", func(st influxql.Statement) {
		if c := conditionOf(st); c != nil {
			_, _, _ = influxql.ConditionExpr(c, &influxql.NowValuer{Now: c13Now})
			_, _, _ = influxql.ConditionExpr(c, nil)
		}
	}},
	{"Reduce(condition)", func(st influxql.Statement) {
		if c := conditionOf(st); c != nil {
			_ = influxql.Reduce(c, &influxql.NowValuer{Now: c13Now}).String()
			_ = influxql.Reduce(c, influxql.MapValuer{"host": "a", "value": int64(2), "x": 1.5, "u": uint64(3), "b": true, "d": time.Second, "t": c13Now, "z": nil})
			_ = influxql.Reduce(c, nil)
		}
	}},
	{"Eval(condition)", func(st influxql.Statement) {
		if c := conditionOf(st); c != nil {
			m := map[string]interface{}{"host": "a", "value": int64(2), "x": 1.5, "u": uint64(3), "b": true, "time": int64(5)}
			_ = influxql.Eval(c, m)
			_ = influxql.EvalBool(c, m)
			_ = influxql.EvalBool(c, nil)
			ev := influxql.ValuerEval{Valuer: influxql.MultiValuer(&influxql.NowValuer{Now: c13Now}, influxql.MapValuer(m)), IntegerFloatDivision: true}
			_ = ev.Eval(c)
		}
	}},
	{"ExprNames", func(st influxql.Statement) {
		if c := conditionOf(st); c != nil {
			_ = influxql.ExprNames(c)
			_ = influxql.ContainsVarRef(c)
			_ = influxql.HasTimeExpr(c)
			_ = influxql.CloneExpr(c)
			_, _, _ = influxql.PartitionExpr(influxql.CloneExpr(c), func(e influxql.Expr) (bool, error) { return strings.Contains(e.String(), "host"), nil })
		}
	}},
	{"RewriteExpr", func(st influxql.Statement) {
		if c := conditionOf(st); c != nil {
			_ = influxql.RewriteExpr(influxql.CloneExpr(c), func(e influxql.Expr) influxql.Expr { return e })
			_ = influxql.RewriteFunc(influxql.CloneExpr(c), func(n influxql.Node) influxql.Node { return n })
		}
	}},
}

// c13Model: the modelled operations on the same (odd) statement, compared with the model: a panic here is a
// mismatch with a model that has no crash outcome (or a proved-unreachable one)
func c13Model(o *out, text string) {
	st, err := influxql.ParseStatement(text)
	if err != nil {
		return
	}
	if pn := safely(func() { addPrintCase(o, st) }); pn != nil {
		o.addCase("(11 "+stmtSexp(st)+")", "(2)", "String() of "+text)
	}
	var q *influxql.SelectStatement
	switch s := st.(type) {
	case *influxql.SelectStatement:
		q = s
	case *influxql.ExplainStatement:
		q = s.Statement
	case *influxql.CreateContinuousQueryStatement:
		q = s.Source
	}
	if q == nil {
		return
	}
	qs := selectSexp(q)
	res := func(f func() string) string {
		out := "(2)"
		if pn := safely(func() { out = f() }); pn != nil {
			return "(2 20)"
		}
		return out
	}
	gi := res(func() string {
		d, err := q.Clone().GroupByInterval()
		if err != nil {
			return "(1)"
		}
		return fmt.Sprintf("(0 %d)", int64(d))
	})
	gof := res(func() string {
		d, err := q.Clone().GroupByOffset()
		if err != nil {
			return "(1)"
		}
		return fmt.Sprintf("(0 %d)", int64(d))
	})
	nm := res(func() string {
		d, tags := q.Dimensions.Normalize()
		var b sb
		b.open(); b.atom(0); b.sp(); b.open(); b.atom(int64(d)); b.sp(); b.texts(tags); b.close(); b.close()
		return b.String()
	})
	o.addCaseVM("(21 "+qs+")", "("+gi+" "+gof+" "+nm+")", "GroupByInterval/Offset/Normalize of "+text, asciiNoFloat(text))
	cn := res(func() string {
		var b sb
		b.open(); b.atom(0); b.sp(); b.texts(q.ColumnNames()); b.close()
		return b.String()
	})
	o.addCaseVM("(15 "+qs+")", cn, "ColumnNames of "+text, asciiNoFloat(text))
	if q.Condition != nil && !strings.Contains(text, "'") && !strings.Contains(q.Condition.String(), "/ /") && !strings.Contains(q.Condition.String(), "~") {
		// the folder and the splitter on conditions a validator would reject (no strings, regexes or floats: no oracle is consulted)
		r := res(func() string { return exprSexp(influxql.Reduce(q.Condition, &influxql.NowValuer{Now: c13Now})) })
		o.addCaseVM("(16 () (1 "+bigNanos(c13Now).String()+") "+exprSexp(q.Condition)+")", r, "Reduce of "+q.Condition.String(), asciiNoFloat(text) && !strings.Contains(text, "/"))
	}
}

func c13One(o *out, text string, tag string) {
	st, err := influxql.ParseStatement(text)
	if err != nil {
		return
	}
	o.count(tag)
	c13Model(o, text)
	for _, op := range c13Ops {
		// a fresh parse for every operation: the memo of GroupByInterval and in-place rewrites must not interfere
		st2, _ := influxql.ParseStatement(text)
		o.checked()
		if pn := safely(func() { op.f(st2) }); pn != nil {
			o.fail("", fmt.Sprintf("%s on %q panics: %v", op.name, text, pn), map[string]interface{}{"op": "total_op", "text": text, "operation": op.name})
		}
	}
	_ = st
}

var c13Witnesses = []string{
	// the time column under EVERY operator the parser lets into a condition, on either side, alone and next to others
	"SELECT v FROM m WHERE 5 + time", "SELECT v FROM m WHERE time + 5", "SELECT v FROM m WHERE now() - time", "SELECT v FROM m WHERE value & time", "SELECT v FROM m WHERE time | 1", "SELECT v FROM m WHERE 2 ^ time",
	"SELECT v FROM m WHERE 5 * time", "SELECT v FROM m WHERE 10 / time", "SELECT v FROM m WHERE 10 % time AND x = 1", "SELECT v FROM m WHERE x = 1 AND (now() - time)", "SELECT v FROM m WHERE 5 =~ time", "SELECT v FROM m WHERE 'a' !~ time",
	"SELECT mean(value) FROM cpu GROUP BY *, time(1m, 10s)", "SELECT mean(v) FROM m GROUP BY /nomatch/, /x/, time(5m, 1s)", "SELECT mean(v) FROM m GROUP BY *, *, *, time(1m, 1s), host", "SELECT mean(v) FROM m GROUP BY time(1m), *",
	"SELECT mean(*) + max(*) FROM cpu", "SELECT top(*, *, 3) FROM cpu", "SELECT max(/^a/) - min(/^b/) FROM cpu", "SELECT f(*, *) + g(/x/, /y/) * h(*) FROM m GROUP BY *, /a/, *",
	"SELECT v FROM m WHERE f(time > 0)", "SELECT v FROM m WHERE host = 'a' AND within(time >= 10s, time < 20s) = 1", "SELECT v FROM m WHERE v > floor(10, now() < time)", "SELECT v FROM m WHERE g(f(time = 1), (time > 2)) AND time < 3",
	"SELECT * FROM (SELECT top(value, host, 2) FROM cpu)", "SELECT /./ FROM (SELECT bottom(value, host, region, 2), n FROM cpu) GROUP BY *", "SELECT mean(*) FROM (SELECT top(value, host, 2) FROM cpu GROUP BY region)",
	"SELECT 1 + 2 FROM cpu", "SELECT value, 2 * 3, 100 - 1 FROM cpu", "SELECT top(value, host, 2), 100 - 1 FROM cpu", "SELECT time FROM cpu", "SELECT time AS ts INTO dst FROM cpu", "SELECT time, time FROM m",
	"SELECT v FROM m WHERE 1 <> time", "SELECT v FROM m WHERE 1 != time", "SELECT v FROM m WHERE time AND 1", "SELECT v FROM m WHERE 1 OR time", "DELETE FROM m WHERE 5 - time", "SHOW TAG KEYS WHERE 7 * time",
	"SELECT top() FROM m", "SELECT bottom() FROM m", "SELECT top(a) FROM m", "SELECT v FROM m GROUP BY time(0s, 1s)", "SELECT v FROM m GROUP BY time(0s, now())", "SELECT v FROM m GROUP BY time(1m - 1m, now())", "SELECT v FROM m GROUP BY time(1m, now())",
	"SELECT v FROM m GROUP BY time(0s, '2000-01-01T00:00:00Z')", "SELECT v FROM m GROUP BY time(2m - 1m - 1m, now() - 1h)", "SELECT x FROM (SELECT top(value) FROM cpu)", "SELECT x FROM (SELECT bottom(value) FROM cpu)",
	"SELECT * FROM (SELECT top(value) FROM cpu)", "SELECT x FROM (SELECT top(value, 1) FROM cpu)", "SELECT v FROM m GROUP BY time()", "SELECT v FROM m GROUP BY time(x)",
	"SELECT v FROM m GROUP BY f(1)", "SELECT v FROM m GROUP BY time(1s, 2s, 3s)", "SELECT v FROM m GROUP BY time(1s, now())", "SELECT v FROM m GROUP BY time(1s, '2000-01-01T00:00:00Z')",
	"SELECT v FROM m GROUP BY time(-1s, 5s)", "SELECT v FROM m WHERE time > 10s / 0.5", "SELECT v FROM m WHERE time > 10s / 0", "SELECT v FROM m WHERE time > 10s * 1.5", "SELECT v FROM m WHERE 10s / 0.2 > time",
	"SELECT v FROM m WHERE x =~ y", "SELECT v FROM m WHERE x =~ /a/ AND y !~ /b/", "SELECT v FROM m WHERE /a/ = x", "SELECT * FROM m WHERE time > now()", "SELECT *::tag, *::field FROM m GROUP BY *",
	"SELECT /re/ FROM m GROUP BY /re/", "SELECT mean(*) FROM m", "SELECT mean(/re/) FROM m", "SELECT mean() FROM m", "SELECT mean(a, b, c) FROM m", "SELECT distinct() FROM m", "SELECT distinct(a, b) FROM m",
	"SELECT count(distinct()) FROM m", "SELECT count(distinct(a, b)) FROM m", "SELECT DISTINCT a, b FROM m", "SELECT derivative() FROM m", "SELECT derivative(mean(), 1s) FROM m GROUP BY time(1s)",
	"SELECT percentile(v) FROM m", "SELECT percentile() FROM m", "SELECT unknown_fn(v, 1, 'x', /r/, *) FROM m", "SELECT v FROM m fill(1) tz('UTC')", "SELECT time FROM m", "SELECT time, time AS t2 FROM m",
	"SELECT v AS time FROM m", "SELECT 1 FROM m", "SELECT 'x' FROM m", "SELECT true FROM m", "SELECT v FROM m WHERE true", "SELECT v FROM m WHERE 1", "SELECT v FROM m WHERE 'x'", "SELECT v FROM m WHERE x",
	"SELECT v FROM m WHERE f(x)", "SELECT v FROM m WHERE time", "SELECT v FROM m WHERE time = time", "SELECT v FROM m WHERE time > time + 1s", "SELECT v FROM m WHERE -9223372036854775808 / -1 = 1",
	"SELECT v FROM m WHERE 1 % 0 = 0 AND 1 / 0 = 0", "SELECT v FROM m WHERE 9223372036854775808 > -1", "SELECT v FROM m WHERE 1.5 % 0 = 0", "SELECT v FROM m WHERE time > 9223372036854775807ns + 1ns",
	"SELECT v FROM m WHERE time > '2000-13-45'", "SELECT v FROM m WHERE time > '9999-12-31T23:59:59Z' + 1h", "SELECT v FROM m WHERE time - '2000-01-01' > 1h", "SELECT v FROM m WHERE '2000-01-01' - '1000-01-01' > 1h",
	"SELECT v FROM (SELECT top() FROM m GROUP BY time())", "SELECT top(v, host, 2), host FROM (SELECT * FROM m)", "SELECT v INTO db.rp.:MEASUREMENT FROM m", "SELECT v INTO :MEASUREMENT FROM m",
	"SHOW TAG VALUES WITH KEY IN (a, b)", "SHOW TAG KEYS WITH KEY IN (a)", "SHOW TAG VALUES WITH KEY =~ /re/ WHERE x = 1", "SELECT v FROM m WHERE (((x)))", "SELECT ((v)) FROM m GROUP BY ((host))",
	"SELECT v FROM m ORDER BY ASC", "SELECT v FROM m ORDER BY time DESC", "SELECT v FROM m LIMIT 9223372036854775807", "SELECT v::float + n::integer FROM m", "SELECT v::tag FROM m GROUP BY v::tag",
	"SELECT count(v), top(v, 1) FROM m", "SELECT v FROM m WHERE time > now() + 9223372036854775807ns", "SELECT v FROM m WHERE now() - time > 1h", "SELECT v FROM m WHERE time > -1s",
	"DELETE FROM m WHERE time > 10s / 0.5", "DROP SERIES WHERE time < now() - 10s / 0.1", "SHOW SERIES WHERE time > 10s / 0.5",
	// regexes that expand to no literal or to odd literal lists
	"SELECT v FROM m WHERE host =~ /^[^\\s\\S]$/", "SELECT v FROM m WHERE host !~ /^a[^\\w\\W]$/", "SELECT v FROM m WHERE host =~ /^[^\\x00-\\x{10FFFF}](a|b)$/", "SELECT v FROM m WHERE host =~ /^$/ OR host !~ /^()$/",
	"SELECT v FROM m WHERE host =~ /^((?i)abc)$/", "SELECT v FROM m WHERE host =~ /^(a|[^\\d\\D])$/", "SELECT v FROM m WHERE host =~ /^[a-c][^\\s\\S][x-z]$/",
	// date-shaped strings of which one, both or none is a date, under every comparison
	"SELECT v FROM m WHERE '2000-01-01' != '2000-13-01'", "SELECT v FROM m WHERE '2000-13-01' != '2000-01-01'", "SELECT v FROM m WHERE '2000-02-30T00:00:00Z' <> '2000-01-01T00:00:00Z'",
	"SELECT v FROM m WHERE '2000-01-01 00:00:61' != '2000-01-01'", "SELECT v FROM m WHERE '2000-13-01' = '2000-01-01'", "SELECT v FROM m WHERE '2000-01-01' = '2000-13-01'", "SELECT v FROM m WHERE '2000-13-01' != '2000-14-01'",
	"SELECT v FROM m WHERE '2000-01-01' < '2000-13-01'", "SELECT v FROM m WHERE '2000-13-01' >= '2000-01-01'", "SELECT v FROM m WHERE '2000-01-01' - '2000-13-01' > 1h", "SELECT v FROM m WHERE '2000-01-01T00:00:00+02:00' < '2000-01-01 00:00:00'",
	"SELECT v FROM m WHERE time > '2000-01-01' AND '2000-99-99' != '2000-01-01'", "SELECT v FROM m WHERE x = '2000-01-01' AND '2000-01-01' <> 'abc'",
	// name queries on calls with tag arguments followed by more fields, names with format directives
	"SELECT top(value, host, 2), other FROM cpu", "SELECT bottom(v, a, b, 3), x, y FROM cpu", "SELECT top(v, host, 1), top(v, host, 1) FROM m", "SELECT \"usage%\", \"usage%\" FROM m", "SELECT \"a%%\", \"a%%\", \"%d\" , \"%d\" FROM m",
	"SELECT (a + b), (a + b) FROM m", "SELECT (v) FROM m", "SELECT host::tag, v::float FROM m WHERE host::tag = 'a' AND v::float > 5",
	// truncated clauses: whatever the parser accepts of these must still print and walk
	"SHOW TAG VALUES WITH KEY =~", "SHOW TAG VALUES WITH KEY !~", "SHOW TAG KEYS FROM cpu WITH KEY !~ LIMIT 1", "SHOW TAG VALUES WITH KEY =~ WHERE x = 1", "SHOW TAG VALUES WITH KEY IN ()", "SHOW TAG VALUES WITH KEY =",
	"SHOW TAG VALUES ON db FROM m WITH KEY =~ /re/ LIMIT 1", "SHOW TAG KEYS WITH KEY !~ /re/", "SELECT v FROM m WHERE x =~", "SELECT v FROM /re", "SELECT v FROM m GROUP BY", "SELECT v FROM m ORDER BY", "SELECT FROM m",
	// time fields first, last, alone, twice, aliased
	"SELECT value, time FROM cpu", "SELECT time FROM cpu", "SELECT value, time AS ts FROM cpu", "SELECT time, time, x FROM cpu", "SELECT time AS a, time AS b, v FROM cpu", "SELECT x, time, y, time FROM cpu",
}

func propC13(o *out, r *rng, thorough bool) {
	for _, w := range c13Witnesses {
		c13One(o, w, "witness")
	}
	for _, s := range loadCorpus("statements.json") {
		c13One(o, s, "corpus")
	}
	// literal cells: every arithmetic / bitwise / comparison operator over boundary literal spellings of every kind
	lits := []string{"0", "1", "-1", "7", "9223372036854775807", "-9223372036854775808", "9223372036854775808", "18446744073709551615", "0.0", "1.5", "-0.5", "0s", "10s", "-3s", "true", "'a'", "'2000-01-01T00:00:00Z'", "now()", "v", "(5 - 5)"}
	for _, op := range []string{"+", "-", "*", "/", "%", "&", "|", "^", "=", "!=", "<", "<=", ">", ">=", "AND", "OR"} {
		for _, a := range lits {
			for _, b := range lits {
				c13One(o, fmt.Sprintf("SELECT v FROM m WHERE x = %s %s %s", a, op, b), "literal-cell")
			}
		}
	}
	// call shapes: nesting, zero and surplus arguments, wildcards and regexes as arguments, next to wildcard fields and dimensions
	for _, outer := range []string{"mean", "count", "top", "derivative", "moving_average", "unknown_fn", "distinct", "percentile"} {
		for _, inner := range []string{"", "count()", "count(*)", "count(/re/)", "count(v)", "count(v, 1)", "*", "/re/", "v", "v, 2", "v, host, 3", "count(distinct())", "mean(mean())"} {
			for _, extra := range []string{"", ", *", ", /re/", ", *::tag", ", v"} {
				for _, gb := range []string{"", " GROUP BY *", " GROUP BY /re/", " GROUP BY time(1m), host"} {
					c13One(o, fmt.Sprintf("SELECT %s(%s)%s FROM m%s", outer, inner, extra, gb), "call-shape")
				}
			}
		}
	}
	n := 40
	if thorough {
		n = 4000
	}
	for _, kind := range stmtKinds {
		for i := 0; i < n; i++ {
			text := genOddStatement(r, kind)
			c13One(o, text, "odd:"+kind)
			o.nontrivial(text)
			if i == 0 {
				o.sample(text)
			}
		}
	}
}

func init() {
	props["C13"] = propC13
	replayers["total_op"] = func(o *out, rp map[string]interface{}) { c13One(o, rpStr(rp, "text"), "replay") }
}
