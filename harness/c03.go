package main

import (
	"fmt"
	"regexp"
	"strings"

	"github.com/influxdata/influxql"
)

// C03: binary operators group by precedence and associate to the left.

type opSpelling struct {
	tok  influxql.Token
	text string
}

var opSpellings = []opSpelling{
	{influxql.ADD, "+"}, {influxql.SUB, "-"}, {influxql.MUL, "*"}, {influxql.DIV, "/"}, {influxql.MOD, "%"},
	{influxql.BITWISE_AND, "&"}, {influxql.BITWISE_OR, "|"}, {influxql.BITWISE_XOR, "^"},
	{influxql.AND, "AND"}, {influxql.OR, "OR"},
	{influxql.EQ, "="}, {influxql.NEQ, "!="}, {influxql.EQREGEX, "=~"}, {influxql.NEQREGEX, "!~"},
	{influxql.LT, "<"}, {influxql.LTE, "<="}, {influxql.GT, ">"}, {influxql.GTE, ">="},
}

type operand struct {
	text string
	tree influxql.Expr // what parseUnaryExpr yields for it
	kind string
}

// refPrec is the harness's own copy of the documented five levels (the
// property statement), independent of Token.Precedence.
func refPrec(t influxql.Token) int {
	switch t {
	case influxql.MUL, influxql.DIV, influxql.MOD, influxql.BITWISE_AND:
		return 5
	case influxql.ADD, influxql.SUB, influxql.BITWISE_OR, influxql.BITWISE_XOR:
		return 4
	case influxql.EQ, influxql.NEQ, influxql.LT, influxql.LTE, influxql.GT, influxql.GTE, influxql.EQREGEX, influxql.NEQREGEX:
		return 3
	case influxql.AND:
		return 2
	case influxql.OR:
		return 1
	}
	return 0
}

// refClimb: precedence climbing over the documented levels — the reference
// reading of a chain (left-associative, five levels).
func refClimb(minp int, lhs influxql.Expr, ops []influxql.Token, rands []influxql.Expr, i int) (influxql.Expr, int) {
	for i < len(ops) && refPrec(ops[i]) >= minp {
		op := ops[i]
		rhs := rands[i+1]
		i++
		rhs, i = refClimb(refPrec(op)+1, rhs, ops, rands, i)
		lhs = &influxql.BinaryExpr{Op: op, LHS: lhs, RHS: rhs}
	}
	return lhs, i
}

func c03Atom(r *rng, depth int) operand {
	names := []string{"a", "b", "c", "x1", "_y", `"my col"`, `"select"`, "host", `"a^b"`, `"p^q"`, `"x[1]"`, `"a*b"`, `"c-d"`, `"e|f"`, `"and"`, `"j OR k"`}
	switch k := r.intn(14); {
	case k < 3:
		n := pick(r, names)
		return operand{n, nil, "ref"}
	case k == 3:
		return operand{pick(r, []string{"1", "0", "42", "9223372036854775807", "18446744073709551615"}), nil, "int"}
	case k == 4:
		return operand{pick(r, []string{"1.5", "0.25", "3.0", "100.125"}), nil, "num"}
	case k == 5:
		return operand{pick(r, []string{"'s'", `'it\'s'`, "'a b'", "''"}), nil, "str"}
	case k == 6:
		return operand{pick(r, []string{"5m", "1h30m", "10s", "1w"}), nil, "dur"}
	case k == 7:
		return operand{pick(r, []string{"true", "false", "TRUE"}), nil, "bool"}
	case k == 8:
		return operand{pick(r, []string{"f(x)", "mean(value)", "now()", "g(x, 2)", "COUNT(v)"}), nil, "call"}
	case k == 9:
		return operand{pick(r, []string{"-5", "- 5", "-1.5", "-9223372036854775808", "+7", "-3m", "-1", "-1", "- 1", "+1", "-1.0", "-0", "-2"}), nil, "neglit"}
	case k == 10 || k == 11:
		inner := pick(r, []string{"a", "f(x)", "x1", `"my col"`})
		if depth > 0 && r.chance(1, 2) {
			inner = "(" + c03Chain(r, 1+r.intn(3), depth-1, false).text + ")"
		}
		sign := pick(r, []string{"-", "-", "+", "- "})
		return operand{sign + inner, nil, "negated"}
	default:
		if depth > 0 {
			ch := c03Chain(r, 1+r.intn(3), depth-1, false)
			if r.chance(1, 5) { // directly nested parentheses are nodes of their own
				return operand{"((" + ch.text + "))", nil, "paren"}
			}
			return operand{"(" + ch.text + ")", nil, "paren"}
		}
		return operand{pick(r, []string{"(a)", "(a)", "((a))", "(((a)))"}), nil, "paren"}
	}
}

type chain struct {
	text  string
	ops   []influxql.Token
	rands []operand
}

var c03Gaps = []string{" ", " ", " ", "  ", "\t", "\n", " \n ", "\r\n", " \r"}

func c03Chain(r *rng, k, depth int, tight bool) chain {
	var c chain
	first := c03Atom(r, depth)
	c.rands = append(c.rands, first)
	var b strings.Builder
	b.WriteString(first.text)
	for i := 0; i < k; i++ {
		op := pick(r, opSpellings)
		text := op.text
		if op.tok == influxql.NEQ && r.chance(1, 3) {
			text = "<>"
		}
		if (op.tok == influxql.AND || op.tok == influxql.OR) && r.chance(1, 3) {
			text = strings.ToLower(text)
		}
		var rand operand
		if op.tok == influxql.EQREGEX || op.tok == influxql.NEQREGEX {
			re := pick(r, []string{"abc", "^a.*z$", "a|b", `x\/y`, "[0-9]+"})
			src := strings.ReplaceAll(re, `\/`, `/`)
			rand = operand{"/" + re + "/", &influxql.RegexLiteral{Val: regexp.MustCompile(src)}, "regex"}
		} else {
			rand = c03Atom(r, depth)
		}
		g1, g2 := pick(r, c03Gaps), pick(r, c03Gaps)
		symbolic := op.tok != influxql.AND && op.tok != influxql.OR
		if tight && symbolic && r.chance(1, 3) {
			g1 = ""
		}
		if tight && symbolic && r.chance(1, 3) && !strings.HasPrefix(rand.text, "-") && !strings.HasPrefix(rand.text, "+") {
			g2 = ""
		}
		b.WriteString(g1)
		b.WriteString(text)
		b.WriteString(g2)
		b.WriteString(rand.text)
		c.ops = append(c.ops, op.tok)
		c.rands = append(c.rands, rand)
	}
	c.text = b.String()
	return c
}

// hasNegRHS: finding class C02-neg-rhs — a precedence-5 BinaryExpr whose
// right operand is itself a BinaryExpr (only the desugared unary sign
// produces that shape in parser output).
func hasNegRHS(e influxql.Expr) bool {
	found := false
	influxql.WalkFunc(e, func(n influxql.Node) {
		if b, ok := n.(*influxql.BinaryExpr); ok && refPrec(b.Op) == 5 {
			if _, ok := b.RHS.(*influxql.BinaryExpr); ok {
				found = true
			}
		}
	})
	return found
}

func c03One(o *out, c chain, tag string) {
	o.count(fmt.Sprintf("%s:k=%d", tag, len(c.ops)))
	tree, err := influxql.ParseExpr(c.text)
	o.checked()
	if err != nil {
		o.fail("", "generated chain rejected: "+err.Error(), map[string]interface{}{"op": "parse_expr", "text": c.text})
		return
	}
	// operand trees: each operand parsed on its own (regex operands are built directly)
	rands := make([]influxql.Expr, len(c.rands))
	for i, rd := range c.rands {
		if rd.tree != nil {
			rands[i] = rd.tree
			continue
		}
		t, err := influxql.ParseExpr(rd.text)
		if err != nil {
			o.fail("", "generated operand rejected: "+err.Error(), map[string]interface{}{"op": "parse_expr", "text": rd.text})
			return
		}
		rands[i] = t
		o.count("operand:" + rd.kind)
	}
	got := exprSexp(tree)
	// model request: (1 a0 ((op a1) ...)) and the climbing reference (2 ...)
	var b sb
	b.expr(rands[0])
	b.sp()
	b.open()
	for i, op := range c.ops {
		if i > 0 {
			b.sp()
		}
		b.open(); b.atom(int64(op)); b.sp(); b.expr(rands[i+1]); b.close()
	}
	b.close()
	o.addCase("(1 "+b.String()+")", got, c.text)
	o.addCase("(2 "+b.String()+")", got, c.text)
	addParseExprCase(o, c.text, nil) // the whole-parser model on the same text
	if len(c.ops) >= 2 {
		o.nontrivial(c.text)
	}
	o.sample(c.text)
	// direct 1: the tree is the documented reading (reference climbing over the levels in the property text)
	want, _ := refClimb(1, rands[0], c.ops, rands, 0)
	if ws := exprSexp(want); ws != got {
		o.fail("", fmt.Sprintf("grouping differs from the five-level left-associative reading: %q parsed as %s", c.text, tree.String()),
			map[string]interface{}{"op": "parse_expr", "text": c.text, "got": got, "want": ws})
	}
	// direct 2: printing and re-parsing gives the same grouping
	o.checked()
	printed := tree.String()
	again, err := influxql.ParseExpr(printed)
	if err != nil || exprSexp(again) != got {
		class := ""
		if hasNegRHS(tree) {
			class = "C02-neg-rhs"
		}
		o.fail(class, fmt.Sprintf("re-parsing the printed tree changes it: %q prints %q", c.text, printed),
			map[string]interface{}{"op": "reprint_expr", "text": c.text, "printed": printed})
	}
}

// tokenTableCase: the whole Token enumeration with String(), Precedence(),
// isOperator() and Lookup(String()) — compared exhaustively with the model's table.
func tokenTableCase(o *out) {
	var b sb
	b.open()
	for i := 0; i < influxql.VerifTokenCount(); i++ {
		t := influxql.Token(i)
		if i > 0 {
			b.sp()
		}
		b.open(); b.atom(int64(i)); b.sp(); b.text(t.String()); b.sp(); b.atom(int64(t.Precedence())); b.sp()
		b.boolean(influxql.VerifIsOperator(t)); b.sp(); b.atom(int64(influxql.Lookup(t.String()))); b.close()
	}
	b.close()
	o.addCase("(3)", b.String(), "token table")
	o.extra["token_table_cells"] = influxql.VerifTokenCount() * 4
}

// c03FreshTrees: every parse builds its own tree from the text alone. A caller may rewrite the tree it was given
// (strip parentheses, swap operands, change an operator); parsing the same text again still groups by the text.
func c03FreshTrees(o *out, r *rng) {
	texts := []string{"a + b * c", "(a + b) * c", "a = b + c AND d * e", "a OR b AND c OR d = e", "x * (y + z) - 1", "-(a + b) * c", "a AND (b OR c)", "a - b - c", "(a - (b - c))", "f(a + b, (c)) * 2"}
	ops := []string{"+", "-", "*", "/", "AND", "OR", "=", "<", "%", "|"}
	for i := 0; i < 60; i++ {
		t := pick(r, []string{"a", "(a)", "1"})
		for j := 0; j < 1+r.intn(5); j++ {
			t += " " + pick(r, ops) + " " + pick(r, []string{"b", "c", "(d + e)", "(f)", "2"})
		}
		texts = append(texts, t)
	}
	for round := 0; round < 2; round++ {
		for _, t := range texts {
			e1, err := influxql.ParseExpr(t)
			if err != nil {
				continue
			}
			want := exprSexp(e1)
			// rewrite the first result in place, the ways a caller does
			safely(func() {
				influxql.WalkFunc(e1, func(n influxql.Node) {
					if b, ok := n.(*influxql.BinaryExpr); ok {
						if p, ok := b.LHS.(*influxql.ParenExpr); ok {
							b.LHS = p.Expr
						}
						if p, ok := b.RHS.(*influxql.ParenExpr); ok {
							b.RHS = p.Expr
						}
						b.LHS, b.RHS = b.RHS, b.LHS
						if b.Op == influxql.ADD {
							b.Op = influxql.MUL
						}
					}
				})
			})
			o.count("fresh-tree")
			o.checked()
			e2, err2 := influxql.ParseExpr(t)
			st, err3 := influxql.ParseStatement("SELECT v FROM m WHERE " + t)
			rp := map[string]interface{}{"op": "fresh_tree", "text": t}
			if err2 != nil || exprSexp(e2) != want {
				o.fail("", fmt.Sprintf("ParseExpr(%q) after the first result was rewritten by its caller gives %v (%v), the text groups as %s", t, e2, err2, want), rp)
				continue
			}
			if err3 == nil {
				if q, ok := st.(*influxql.SelectStatement); ok && q.Condition != nil && exprSexp(influxql.CloneExpr(q.Condition)) != exprSexp(q.Condition) {
					o.fail("", fmt.Sprintf("the condition of %q and its clone differ", t), rp)
				}
			}
		}
	}
}

// c03ChainsInContext: the grouping of a chain is the same when other statements with chains of their own are parsed
// before and after it by the same parser, and when its lines end in (empty or non-empty) line comments
func c03ChainsInContext(o *out, r *rng) {
	ops := []string{"+", "-", "*", "/", "AND", "OR", "=", "<", "%", "|", "^", "&"}
	chain := func() string {
		t := pick(r, []string{"a", "(a)", "-a", "1"})
		for j := 0; j < 1+r.intn(5); j++ {
			t += " " + pick(r, ops) + " " + pick(r, []string{"b", "c", "(d + e)", "-f", "2", "g"})
		}
		return t
	}
	for i := 0; i < 150; i++ {
		k := 2 + r.intn(3)
		var parts, want []string
		ok := true
		for j := 0; j < k; j++ {
			c := chain()
			text := "SELECT " + chain() + " FROM m WHERE " + c
			st, err := influxql.ParseStatement(text)
			if err != nil {
				ok = false
				break
			}
			parts = append(parts, text)
			want = append(want, stmtSexp(st))
		}
		if !ok {
			continue
		}
		o.count("chains-in-query")
		o.checked()
		qt := strings.Join(parts, "; ")
		q, err := influxql.ParseQuery(qt)
		rp := map[string]interface{}{"op": "chains_in_query", "text": qt}
		if err != nil || len(q.Statements) != k {
			o.fail("", fmt.Sprintf("ParseQuery(%q): %v", qt, err), rp)
			continue
		}
		for j, st := range q.Statements { // compared after the whole query has been parsed
			if stmtSexp(st) != want[j] {
				o.fail("", fmt.Sprintf("statement %d of %q groups as %s; parsed alone it is %s", j, qt, st.String(), parts[j]), rp)
				break
			}
		}
	}
	for i := 0; i < 150; i++ {
		c := chain()
		e1, err := influxql.ParseExpr(c)
		if err != nil {
			continue
		}
		words := strings.Split(c, " ")
		var b strings.Builder
		for j, w := range words {
			b.WriteString(w)
			if j+1 < len(words) {
				b.WriteString(pick(r, []string{" ", " --\n", " -- c\n", " --\r\n", "\n", " --x\n ", " -- \n\n"}))
			}
		}
		o.count("chain-with-line-comments")
		o.checked()
		e2, err2 := influxql.ParseExpr(b.String())
		if err2 != nil || exprSexp(e2) != exprSexp(e1) {
			o.fail("", fmt.Sprintf("%q parses as %v (%v); without the line comments it is %s", b.String(), e2, err2, e1.String()), map[string]interface{}{"op": "chain_comments", "text": b.String()})
		}
	}
}

func propC03(o *out, r *rng, thorough bool) {
	tokenTableCase(o)
	c03FreshTrees(o, r)
	c03ChainsInContext(o, r)
	// exhaustive chains of k operators over all 18 spellings with plain atoms
	maxK := 3
	if thorough {
		maxK = 4
	}
	atoms := []string{"a", "b", "c", "d", "e"}
	var rec func(prefix []opSpelling, k int)
	rec = func(prefix []opSpelling, k int) {
		if len(prefix) == k {
			var c chain
			var b strings.Builder
			b.WriteString(atoms[0])
			c.rands = append(c.rands, operand{atoms[0], nil, "ref"})
			for i, op := range prefix {
				rd := operand{atoms[i+1], nil, "ref"}
				if op.tok == influxql.EQREGEX || op.tok == influxql.NEQREGEX {
					rd = operand{"/r" + atoms[i+1] + "/", &influxql.RegexLiteral{Val: regexp.MustCompile("r" + atoms[i+1])}, "regex"}
				}
				b.WriteString(" " + op.text + " " + rd.text)
				c.ops = append(c.ops, op.tok)
				c.rands = append(c.rands, rd)
			}
			c.text = b.String()
			c03One(o, c, "exhaustive")
			return
		}
		for _, op := range opSpellings {
			rec(append(prefix, op), k)
		}
	}
	for k := 1; k <= maxK; k++ {
		rec(nil, k)
	}
	o.extra["exhaustive_chain_length"] = maxK
	// random chains with every operand kind, parenthesised sub-chains, negated operands, layouts
	n := 4000
	if thorough {
		n = 150000
	}
	for i := 0; i < n; i++ {
		k := 1 + r.intn(7)
		c03One(o, c03Chain(r, k, 2, true), "random")
	}
	// witnesses of the known finding, so that it is reported while it persists
	for _, w := range []string{"((a + b)) * c", "(((a)))", "((a)) + ((b))", "-((a))"} {
		addParseExprCase(o, w, nil)
		o.count("nested-parens")
	}
	// staircases: one operator of every level in every order (the insertion loop walks down a right spine whose
	// length is the number of levels), and every operator of the two tightest levels on the last step
	{
		lv := [][]string{{"OR"}, {"AND"}, {"=", "!=", "<", "<=", ">", ">="}, {"+", "-", "|", "^"}, {"*", "/", "%", "&"}}
		atoms := []string{"a", "b", "c", "d", "e", "f", "g"}
		emit := func(ops []string) {
			var b strings.Builder
			b.WriteString(atoms[0])
			for i, op := range ops {
				b.WriteString(" " + op + " " + atoms[(i+1)%len(atoms)])
			}
			w := b.String()
			c03One(o, chain{text: w, ops: nil, rands: []operand{{w, nil, "staircase"}}}, "staircase")
			addParseStmtCase(o, "SELECT v FROM m WHERE "+w, nil)
			addParseStmtCase(o, "SELECT v FROM m WHERE ("+w+")", nil)
		}
		var perm func(cur []int, used int)
		perm = func(cur []int, used int) {
			if len(cur) == 5 {
				ops := make([]string, 5)
				for i, l := range cur {
					ops[i] = lv[l][0]
				}
				emit(ops)
				emit(append(append([]string{}, ops...), ops[0], ops[4]))
				return
			}
			for l := 0; l < 5; l++ {
				if used&(1<<l) == 0 {
					perm(append(cur, l), used|1<<l)
				}
			}
		}
		perm(nil, 0)
		for _, c := range lv[2] {
			for _, a := range lv[3] {
				for _, m := range lv[4] {
					emit([]string{"OR", "AND", c, a, m})
					emit([]string{m, a, c, "AND", "OR"})
				}
			}
		}
	}
	// the literal -1 is how a sign is stored: a written -1 in every operand position must not be taken for one
	for _, op1 := range []string{"=", "+", "-", "*", "/", "%", "AND", "<", "|", "^"} {
		for _, op2 := range []string{"+", "-", "*", "/", "%", "&", "<", "OR"} {
			for _, tail := range []string{"y", "2", "-2", "y * z", "(y)", "f(y)", "-y"} {
				w := "x " + op1 + " -1 " + op2 + " " + tail
				if _, err := influxql.ParseExpr(w); err == nil {
					c03One(o, chain{text: w, ops: nil, rands: []operand{{w, nil, "minus-one"}}}, "minus-one")
				}
			}
		}
	}
	for _, w := range []string{"b / -a", "x * -f(y)", "1 % -(a + b)"} {
		c03One(o, chain{text: w, ops: nil, rands: []operand{{w, nil, "witness"}}}, "witness")
	}
}

func init() { props["C03"] = propC03 }
