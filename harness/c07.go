package main

import (
	"encoding/json"
	"fmt"
	"math"
	"strconv"
	"strings"

	"github.com/influxdata/influxql"
)

// C07: bound parameters are substituted as single, already-typed tokens.

func gvalSexp(v interface{}) string {
	var b sb
	var enc func(v interface{})
	enc = func(v interface{}) {
		switch v := v.(type) {
		case float64:
			b.open(); b.atom(1); b.sp(); b.uatom(floatBits(v)); b.close()
		case int64:
			b.open(); b.atom(2); b.sp(); b.atom(v); b.close()
		case string:
			b.open(); b.atom(3); b.sp(); b.text(v); b.close()
		case bool:
			b.open(); b.atom(4); b.sp(); b.boolean(v); b.close()
		case json.Number:
			b.open(); b.atom(5); b.sp(); b.text(string(v)); b.close()
		case map[string]interface{}:
			b.open(); b.atom(6); b.sp(); b.open()
			first := true
			for k, x := range v { // at most one entry matters; several entries are an error whatever their order
				if !first {
					b.sp()
				}
				first = false
				b.open(); b.text(k); b.sp(); enc(x); b.close()
			}
			b.close(); b.close()
		default:
			b.WriteString("(7)")
		}
	}
	enc(v)
	return b.String()
}

var hostileStrings = []string{"x", "", "a b", "it's", "'; DROP DATABASE d; --", "\"", "\\", "a\\'b", "line\nbreak", "tab\t", "/re/", "$p", "$q", "1", "10s", "true", "select",
	"UTC", "America/New_York", "No/Such_Zone", "héllo", "日本", "\x00", "a\rb", "--", "/*", "*/", ";", ",", ")", "(", "x) OR (1=1", "time", "now()"}

func c07Values(r *rng) []interface{} {
	vals := []interface{}{
		float64(1.5), float64(0), float64(-2.25), float64(1e21), float64(1e-9), math.Inf(1), math.NaN(), float64(3),
		int64(0), int64(7), int64(-1), int64(math.MaxInt64), int64(math.MinInt64),
		true, false,
		json.Number("1.5"), json.Number("12"), json.Number("-3"), json.Number("1e5"), json.Number("1.5e3"), json.Number("99999999999999999999"), json.Number("abc"),
		json.Number("1.5e400"), json.Number("."), json.Number(""), json.Number("+7"), json.Number("0x10"), json.Number("1_0"),
		map[string]interface{}{"ident": "host"}, map[string]interface{}{"identifier": "my db"}, map[string]interface{}{"ident": int64(1)},
		map[string]interface{}{"regex": "^a.*$"}, map[string]interface{}{"regex": "a/b"}, map[string]interface{}{"regex": "("}, map[string]interface{}{"regex": true},
		map[string]interface{}{"string": "s"}, map[string]interface{}{"string": float64(1)},
		map[string]interface{}{"float": float64(2.5)}, map[string]interface{}{"number": int64(4)}, map[string]interface{}{"float": "x"}, map[string]interface{}{"number": json.Number("2.5")},
		map[string]interface{}{"int": int64(9)}, map[string]interface{}{"integer": float64(9)}, map[string]interface{}{"int": json.Number("9")}, map[string]interface{}{"int": json.Number("9.5")},
		map[string]interface{}{"duration": "10s"}, map[string]interface{}{"duration": int64(90 * 60e9)}, map[string]interface{}{"duration": "bogus"}, map[string]interface{}{"duration": float64(1)},
		map[string]interface{}{"duration": int64(math.MinInt64)}, map[string]interface{}{"duration": "5124096h"},
		map[string]interface{}{"unknown": "x"}, map[string]interface{}{}, map[string]interface{}{"int": int64(1), "string": "x"},
		int(5), nil, []byte("x"), uint64(3), float32(1),
		// every object kind with a null, and regexes whose text contains the written-literal escape
		map[string]interface{}{"ident": nil}, map[string]interface{}{"identifier": nil}, map[string]interface{}{"regex": nil}, map[string]interface{}{"string": nil},
		map[string]interface{}{"float": nil}, map[string]interface{}{"int": nil}, map[string]interface{}{"duration": nil}, map[string]interface{}{"ident": ""},
		map[string]interface{}{"regex": "a\\/b"}, map[string]interface{}{"regex": "^/var\\/log$"}, map[string]interface{}{"regex": "a\\\\/b"}, map[string]interface{}{"regex": "\\/"},
		uint64(1 << 63), uint64(1<<64 - 1), int64(-1), map[string]interface{}{"integer": int64(-1)},
	}
	for _, s := range hostileStrings {
		vals = append(vals, s)
	}
	for i := 0; i < 20; i++ {
		vals = append(vals, int64(r.next()), math.Float64frombits(r.next()), float64(int64(r.next()>>uint(r.intn(64)))))
	}
	return vals
}

// inline: the literal spelling of a bound value at a placeholder, ok=false if it has none
func inlineSpelling(v influxql.Value) (string, bool) {
	switch v.TokenType() {
	case influxql.STRING:
		if strings.ContainsAny(v.Value(), "\x00\r") {
			return "", false
		}
		return influxql.QuoteString(v.Value()), true
	case influxql.IDENT:
		if strings.ContainsAny(v.Value(), "\x00\r") {
			return "", false
		}
		return quoteIdentAlways(v.Value()), true
	case influxql.INTEGER:
		if strings.HasPrefix(v.Value(), "-") {
			return "", false // a negative literal is two tokens when written
		}
		return v.Value(), true
	case influxql.NUMBER:
		s := v.Value()
		if strings.HasPrefix(s, "-") || strings.ContainsAny(s, "NIn") || !strings.Contains(s, ".") {
			return "", false
		}
		return s, true
	case influxql.TRUE:
		return "true", true
	case influxql.FALSE:
		return "false", true
	case influxql.DURATIONVAL:
		s := v.Value()
		if _, err := influxql.ParseDuration(s); err != nil || strings.HasPrefix(s, "-") {
			return "", false
		}
		return s, true
	case influxql.REGEX:
		if strings.ContainsAny(v.Value(), "\n\x00\r") {
			return "", false
		}
		return "/" + strings.Replace(v.Value(), "/", `\/`, -1) + "/", true
	}
	return "", false
}

var c07Templates = []string{
	"SELECT v FROM m WHERE x = $p", "SELECT v FROM m WHERE $p = x", "SELECT $p FROM m", "SELECT v FROM $p", "SELECT v FROM m WHERE x =~ $p",
	"SELECT v FROM m WHERE x !~ $p AND y = 1", "SELECT mean(v) FROM m GROUP BY time($p)", "SELECT v FROM m WHERE time > now() - $p", "SELECT -$p FROM m", "SELECT - $p, +$p FROM m",
	"SELECT f($p, 1) FROM m", "SELECT f(1, $p) FROM m", "SELECT v FROM m GROUP BY $p", "SELECT $p::float FROM m", "SHOW TAG VALUES WITH KEY = $p", "SHOW TAG VALUES WITH KEY =~ $p",
	"CREATE USER $p WITH PASSWORD $q", "SELECT v INTO $p FROM m", "DROP DATABASE $p", "SELECT v FROM m WHERE x = $p AND y = $q", "SELECT v FROM m tz($p)", "SELECT $p, /re/ FROM m",
	"SELECT v FROM db.$p.m", "SELECT v FROM db.$p", "SELECT v FROM db.rp.$p WHERE x = 1", "SELECT v FROM $p, $q", "SELECT v FROM m WHERE ($p)", "SELECT v FROM m WHERE x = $p OR $p", "SELECT $p + 1, 2 * $p FROM m", "SELECT v FROM m ORDER BY $p",
	"SELECT v AS $p FROM m", "SELECT v FROM (SELECT $p FROM m)", "SHOW MEASUREMENTS WITH MEASUREMENT = $p", "SHOW MEASUREMENTS WITH MEASUREMENT =~ $p", "DELETE FROM $p WHERE host = $q",
	"SELECT $\"$p\" FROM m", "SELECT v FROM m WHERE x = $\"$$p\" AND y = $\"p\"", "SELECT v FROM m WHERE x = $\"\"", "SELECT v FROM m WHERE x = $", "SELECT v FROM m WHERE x = $unbound", "SELECT $\"quoted name\" FROM m", "SELECT v FROM m fill($p)", "SET PASSWORD FOR $p = $q",
	"SELECT v FROM m LIMIT $p", "KILL QUERY $p", "CREATE RETENTION POLICY rp ON db DURATION $p REPLICATION 1", "SELECT v FROM m WHERE x =~ $p OR y =~ /z/", "$p", "SELECT v FROM m; $p",
}

func c07Bind(o *out, v interface{}) {
	bv := influxql.BindValue(v)
	resp := fmt.Sprintf("(%d ", int64(bv.TokenType()))
	if bv.TokenType() == influxql.BOUNDPARAM {
		resp += "())"
	} else {
		resp += textSexp(bv.Value()) + ")"
	}
	_, isF := v.(float64)
	m, isM := v.(map[string]interface{})
	vm := !isF
	if isM {
		for _, x := range m {
			switch x.(type) {
			case float64, json.Number, int64:
				vm = false
			}
		}
	}
	if jn, ok := v.(json.Number); ok && strings.Contains(string(jn), ".") {
		vm = false
	}
	o.addCaseVM("(13 "+gvalSexp(v)+")", resp, fmt.Sprintf("BindValue(%#v)", v), vm)
	o.count("bind")
}

func c07One(o *out, tmpl string, params map[string]interface{}, tag string) {
	st, err, pn := addParseStmtCase(o, tmpl, params)
	o.count(tag)
	o.checked()
	rp := map[string]interface{}{"op": "params", "text": tmpl, "params": fmt.Sprintf("%#v", params)}
	if pn != nil {
		o.fail("", fmt.Sprintf("ParseStatement(%q) with %v panics: %v", tmpl, params, pn), rp)
		return
	}
	// every placeholder the statement was accepted with must have been bound under exactly its name
	// (the plain lexer cannot tell the inside of a regular expression: templates with a '/' are left out)
	// (ParseStatement stops behind the statement and ignores what follows: only a text that is accepted as a whole counts)
	whole := false
	if err == nil {
		safely(func() {
			p := influxql.NewParser(strings.NewReader(tmpl))
			p.SetParams(params)
			_, qerr := p.ParseQuery()
			whole = qerr == nil
		})
	}
	if err == nil && whole && !strings.Contains(tmpl, ";") && !strings.Contains(tmpl, "/") {
		sc := influxql.NewScanner(strings.NewReader(tmpl))
		for i := 0; i < len(tmpl)+2; i++ {
			tok, _, lit := sc.Scan()
			if tok == influxql.EOF {
				break
			}
			if tok == influxql.BOUNDPARAM {
				name := strings.TrimPrefix(lit, "$")
				if _, ok := params[name]; !ok || name == "" {
					o.fail("", fmt.Sprintf("%q is accepted with %v although the placeholder %q is not bound", tmpl, params, lit), rp)
				}
			}
		}
	}
	// inlining: whenever the bound values can be written as literals at the placeholders' positions (the inlined
	// text is accepted), the result equals parsing the text with the literals written out
	spell := map[string]string{}
	okAll := true
	for name, v := range params {
		if name == "" || strings.HasPrefix(name, "$") || !strings.Contains(tmpl, "$"+name) {
			continue
		}
		sp, ok := inlineSpelling(influxql.BindValue(v))
		if !ok {
			okAll = false
			break
		}
		spell["$"+name] = sp
	}
	// one pass over the template: an inlined value is never looked at again (it may itself look like a placeholder),
	// and only where every textual occurrence is a placeholder token of its own (not part of a quoted identifier,
	// a string, a comment or a regular expression)
	inl, comparable := inlineAll(tmpl, spell)
	okAll = okAll && comparable
	if okAll && !hasPlaceholderToken(inl) {
		st2, err2 := influxql.ParseStatement(inl)
		if err2 != nil {
			return // the value cannot be written at that position: no claim
		}
		if err != nil {
			class := ""
			for name, v := range params {
				if influxql.BindValue(v).TokenType() == influxql.REGEX && strings.Contains(tmpl, ".$"+name) {
					class = "C07-regex-param-after-dot"
				}
			}
			o.fail(class, fmt.Sprintf("%q with %v: %v, but the inlined text %q is accepted", tmpl, params, errStr(err), inl), rp)
		} else if stmtSexp(st) != stmtSexp(st2) {
			o.fail("", fmt.Sprintf("%q with %v builds %s, the inlined text %q builds %s", tmpl, params, st.String(), inl, st2.String()), rp)
		}
	}
}

// inlineAt writes the literal sp in place of each occurrence of the placeholder ph as a token of its own:
// a blank is added where the literal would otherwise fuse with a neighbouring character
func inlineAt(text, ph, sp string) string {
	var b strings.Builder
	for {
		i := strings.Index(text, ph)
		if i < 0 {
			b.WriteString(text)
			return b.String()
		}
		// the placeholder name must end here (do not replace $p inside $pq)
		j := i + len(ph)
		if j < len(text) && (text[j] == '_' || text[j] >= '0' && text[j] <= '9' || text[j] >= 'a' && text[j] <= 'z' || text[j] >= 'A' && text[j] <= 'Z') {
			b.WriteString(text[:j])
			text = text[j:]
			continue
		}
		b.WriteString(text[:i])
		if i > 0 && wordyStart(sp) && (wordyEnd(text[:i]) || text[i-1] == '"') {
			b.WriteByte(' ')
		}
		b.WriteString(sp)
		if j < len(text) && wordyEnd(sp) && (wordyStart(text[j:]) || text[j] == '"') {
			b.WriteByte(' ')
		}
		text = text[j:]
	}
}

// hasPlaceholderToken: the plain lexer still finds a bound-parameter token
func hasPlaceholderToken(text string) bool {
	sc := influxql.NewScanner(strings.NewReader(text))
	for i := 0; i < len(text)+2; i++ {
		tok, _, _ := sc.Scan()
		if tok == influxql.EOF {
			return false
		}
		if tok == influxql.BOUNDPARAM {
			return true
		}
	}
	return false
}

func isWordByte(c byte) bool {
	return c == '_' || c >= '0' && c <= '9' || c >= 'a' && c <= 'z' || c >= 'A' && c <= 'Z'
}

// inlineAll replaces, in one left-to-right pass, every whole-word occurrence of a placeholder by its spelling.
// comparable = the occurrences are exactly the placeholder tokens the lexer sees, and none lies behind a '/'
// (which may open a regular expression, whose content only the parser can tell).
func inlineAll(text string, spell map[string]string) (string, bool) {
	var b strings.Builder
	occurrences := 0
	comparable := true
	i := 0
	for i < len(text) {
		if text[i] != '$' {
			b.WriteByte(text[i])
			i++
			continue
		}
		j := i + 1
		for j < len(text) && isWordByte(text[j]) {
			j++
		}
		sp, ok := spell[text[i:j]]
		if !ok {
			b.WriteString(text[i:j])
			i = j
			continue
		}
		occurrences++
		if strings.Contains(text[:i], "/") {
			comparable = false
		}
		if i > 0 && wordyStart(sp) && (wordyEnd(text[:i]) || text[i-1] == '"') {
			b.WriteByte(' ')
		}
		b.WriteString(sp)
		if j < len(text) && wordyEnd(sp) && (wordyStart(text[j:]) || text[j] == '"') {
			b.WriteByte(' ')
		}
		i = j
	}
	tokens := 0
	sc := influxql.NewScanner(strings.NewReader(text))
	for k := 0; k < len(text)+2; k++ {
		tok, _, lit := sc.Scan()
		if tok == influxql.EOF {
			break
		}
		if _, ok := spell[lit]; ok && tok == influxql.BOUNDPARAM {
			tokens++
		}
	}
	return b.String(), comparable && tokens == occurrences
}

func errStr(err error) string {
	if err == nil {
		return "accepted"
	}
	return "rejected (" + err.Error() + ")"
}

// payload independence: the structure of the result does not depend on a bound string's content
func c07Payload(o *out, tmpl string, s0 string) {
	const prefix = "ZQXJ"
	const marker = prefix + "AAAA"
	s := prefix + s0 // unique in the dump, so it can be located
	o.checked()
	p1 := influxql.NewParser(strings.NewReader(tmpl))
	p1.SetParams(map[string]interface{}{"p": marker, "q": "QQQQ"})
	st1, err1 := p1.ParseStatement()
	p2 := influxql.NewParser(strings.NewReader(tmpl))
	p2.SetParams(map[string]interface{}{"p": s, "q": "QQQQ"})
	st2, err2 := p2.ParseStatement()
	rp := map[string]interface{}{"op": "payload", "text": tmpl, "value": s0}
	if strings.Contains(strings.ToLower(tmpl), "tz(") {
		return // a time-zone name is looked up: its content may turn success into an error, never change the shape
	}
	if (err1 == nil) != (err2 == nil) {
		o.fail("", fmt.Sprintf("%q: bound string %q is %s but %q is %s", tmpl, marker, errStr(err1), s, errStr(err2)), rp)
		return
	}
	if err1 != nil {
		return
	}
	inner := func(t string) string { x := textSexp(t); return x[1 : len(x)-1] }
	a := strings.Replace(stmtSexp(st2), inner(s), inner(marker), -1)
	if a != stmtSexp(st1) {
		o.fail("", fmt.Sprintf("%q: the AST built with bound string %q has a different shape than with %q: %s", tmpl, s, marker, st2.String()), rp)
	}
}

// a parser's bindings are the ones of the latest SetParams call: nothing of an earlier call is left behind
func c07Rebind(o *out, tmpl string, first, second map[string]interface{}) {
	o.count("rebind")
	o.checked()
	rp := map[string]interface{}{"op": "params_rebind", "text": tmpl, "params": fmt.Sprintf("%#v then %#v", first, second)}
	p := influxql.NewParser(strings.NewReader(tmpl))
	p.SetParams(first)
	p.SetParams(second)
	var st influxql.Statement
	var err error
	if pn := safely(func() { st, err = p.ParseStatement() }); pn != nil {
		o.fail("", fmt.Sprintf("%q after SetParams(%v); SetParams(%v) panics: %v", tmpl, first, second, pn), rp)
		return
	}
	fresh := influxql.NewParser(strings.NewReader(tmpl))
	fresh.SetParams(second)
	st2, err2 := fresh.ParseStatement()
	if (err == nil) != (err2 == nil) || err == nil && stmtSexp(st) != stmtSexp(st2) {
		o.fail("", fmt.Sprintf("%q after SetParams(%v); SetParams(%v): %s, but with SetParams(%v) alone: %s", tmpl, first, second, errStr(err), second, errStr(err2)), rp)
	}
}

func propC07(o *out, r *rng, thorough bool) {
	vals := c07Values(r)
	for _, v := range vals {
		c07Bind(o, v)
	}
	for _, t := range c07Templates {
		c07Rebind(o, t, map[string]interface{}{"p": int64(1), "q": "old"}, map[string]interface{}{"q": "new"})
		c07Rebind(o, t, map[string]interface{}{"p": int64(1), "q": "old"}, map[string]interface{}{"p": int64(2)})
		c07Rebind(o, t, map[string]interface{}{"p": int64(1), "q": "old"}, map[string]interface{}{})
		c07Rebind(o, t, map[string]interface{}{"p": int64(1), "q": "old"}, nil)
		c07Rebind(o, t, nil, map[string]interface{}{"p": "x", "q": int64(3)})
	}
	reps := 1
	if thorough {
		reps = 12
	}
	for rep := 0; rep < reps; rep++ {
		for _, t := range c07Templates {
			for i, v := range vals {
				if rep > 0 && r.chance(2, 3) {
					continue
				}
				q := pick(r, vals)
				c07One(o, t, map[string]interface{}{"p": v, "q": q}, "template")
				if i < 2 {
					o.sample(t + "  " + fmt.Sprintf("%#v", v))
				}
				o.nontrivial(t + fmt.Sprintf("|%#v|%#v", v, q))
			}
			for _, s := range hostileStrings {
				c07Payload(o, t, s)
			}
			c07One(o, t, map[string]interface{}{"$p": int64(5), "p": "plain"}, "dollar-name")
			c07One(o, t, map[string]interface{}{"$p": int64(5)}, "dollar-name")
			c07One(o, t, map[string]interface{}{"": "empty", "$": "dollar"}, "dollar-name")
			c07One(o, t, nil, "unbound")
			c07One(o, t, map[string]interface{}{"other": int64(1)}, "unbound")
		}
	}
	// two placeholders at every distance in raw tokens, one of them bound: the unbound one is reported, it never takes
	// the other one's value (whatever the parser remembers about the tokens it has pushed back)
	for _, sep := range []string{"", " ", "+", " +", "+ ", " + ", ",", ", ", " ,", " , ", " OR", " OR ", "OR ", " AND ", "*", " - ", " + 1 + ", " , v , ", "  ", " +  ", "+(", " = ", "=", ",$a,", " + $a + "} {
		for _, tmpl := range []string{"SELECT $a" + sep + "$b FROM m", "SELECT v FROM m WHERE x = $a" + sep + "$b", "SELECT v FROM m WHERE $a" + sep + "$b = 1", "SELECT f($a" + sep + "$b) FROM m", "SELECT v FROM $a" + sep + "$b"} {
			for _, ps := range []map[string]interface{}{{"a": int64(1)}, {"b": int64(1)}, {"a": "usage"}, {"b": "usage"}, {"a": int64(1), "b": int64(2)}, {"a": map[string]interface{}{"identifier": "usage"}},
				{"b": map[string]interface{}{"regex": "^x"}}, {"a": true}} {
				c07One(o, tmpl, ps, "two-placeholders")
			}
		}
	}
	// the values are bound when SetParams is called: what the caller does to its map afterwards changes nothing
	for _, tmpl := range []string{"SELECT v FROM m WHERE host = $p AND n = $q", "SELECT $p FROM $q", "SELECT v FROM m WHERE x =~ $p OR y = $q"} {
		for _, v := range vals {
			orig := map[string]interface{}{"p": v, "q": map[string]interface{}{"identifier": "usage"}}
			parse := func(mutate bool) string {
				m := map[string]interface{}{"p": v, "q": map[string]interface{}{"identifier": "usage"}}
				out := ""
				safely(func() {
					p := influxql.NewParser(strings.NewReader(tmpl))
					p.SetParams(m)
					if mutate {
						m["p"] = "changed afterwards"
						m["q"].(map[string]interface{})["identifier"] = "other"
						m["q"].(map[string]interface{})["regex"] = "^x"
						delete(m, "q")
						m["r"] = int64(1)
					}
					st, err := p.ParseStatement()
					out = fmt.Sprint(err)
					if err == nil {
						out = stmtSexp(st)
					}
				})
				return out
			}
			o.count("params-owned")
			o.checked()
			if a, b := parse(false), parse(true); a != b {
				o.fail("", fmt.Sprintf("%q with %v: the caller changed its map after SetParams and the result changed from %s to %s", tmpl, orig, a, b), map[string]interface{}{"op": "params", "text": tmpl, "params": fmt.Sprintf("%#v", orig)})
			}
		}
	}
	for _, text := range []string{"value > $threshold", "f($x)", "$\"multi-word value\" + 1", "$p", "a AND $b", "-$x", "host =~ $re", "$", "x = $\"\""} {
		o.count("helper-unbound")
		o.checked()
		var e influxql.Expr
		var err error
		pn := safely(func() { e, err = influxql.ParseExpr(text) })
		if pn != nil || err == nil {
			o.fail("", fmt.Sprintf("ParseExpr(%q), which has no parameters to bind, returns %v (%v) instead of an error", text, e, pn), map[string]interface{}{"op": "helper_unbound", "text": text})
		}
		st, serr := influxql.ParseStatement("SELECT v FROM m WHERE " + text)
		if serr == nil {
			if _, qerr := influxql.ParseQuery("SELECT v FROM m WHERE " + text); qerr == nil {
				o.fail("", fmt.Sprintf("a statement with the unbound placeholder in %q is accepted: %v", text, st), map[string]interface{}{"op": "helper_unbound", "text": text})
			}
		}
	}
	// generated statements with a literal position replaced by a placeholder
	n := 300
	if thorough {
		n = 20000
	}
	for i := 0; i < n; i++ {
		text, _, _ := genStatement(r, pick(r, stmtKinds), true)
		// replace one integer/string literal occurrence by $p
		toks := strings.Split(text, " ")
		idx := r.intn(len(toks))
		var v interface{}
		if n, err := strconv.ParseInt(toks[idx], 10, 64); err == nil && n >= 0 {
			v = n
		} else if len(toks[idx]) >= 2 && toks[idx][0] == '\'' && toks[idx][len(toks[idx])-1] == '\'' && !strings.Contains(toks[idx][1:len(toks[idx])-1], "'") && !strings.Contains(toks[idx], "\\") {
			v = toks[idx][1 : len(toks[idx])-1]
		} else {
			continue
		}
		toks[idx] = "$p"
		c07One(o, strings.Join(toks, " "), map[string]interface{}{"p": v}, "generated")
	}
}

func init() {
	props["C07"] = propC07
	replayers["params_rebind"] = func(o *out, rp map[string]interface{}) {
		c07Rebind(o, rpStr(rp, "text"), map[string]interface{}{"p": int64(1), "q": "old"}, map[string]interface{}{"q": "new"})
		c07Rebind(o, rpStr(rp, "text"), map[string]interface{}{"p": int64(1), "q": "old"}, nil)
	}
	replayers["params"] = func(o *out, rp map[string]interface{}) {
		fmt.Println("replay of a parameter case: template", rpStr(rp, "text"), "params", rpStr(rp, "params"), "- re-running the whole template set")
		r := newRng(1)
		for _, v := range c07Values(r) {
			c07One(o, rpStr(rp, "text"), map[string]interface{}{"p": v, "q": v}, "replay")
		}
	}
	replayers["payload"] = func(o *out, rp map[string]interface{}) { c07Payload(o, rpStr(rp, "text"), rpStr(rp, "value")) }
}
