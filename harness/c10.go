package main

import (
	"fmt"
	"math"
	"math/big"
	"regexp"
	"strings"
	"time"

	"github.com/influxdata/influxql"
)

// C10: splitting a WHERE clause into time range and residual preserves its meaning.

type c10pred struct {
	text  string
	holds func(ts *big.Int, tags map[string]interface{}) bool
	bound *big.Int // instant of a time bound, if any
}

var c10Now = time.Unix(1700000000, 123456789).UTC()

type c10gen struct{ r *rng }

func (g *c10gen) timeLit() (string, *big.Int) {
	switch g.r.intn(8) {
	case 0:
		v := int64(g.r.intn(2000))*1e9 + int64(g.r.intn(3))*int64(g.r.intn(1e9))
		return fmt.Sprint(v), big.NewInt(v)
	case 1:
		t := time.Date(2000+g.r.intn(30), time.Month(1+g.r.intn(12)), 1+g.r.intn(28), g.r.intn(24), g.r.intn(60), g.r.intn(60), g.r.intn(1e9), time.UTC)
		return "'" + t.Format(time.RFC3339Nano) + "'", bigNanos(t)
	case 2:
		t := time.Date(2000+g.r.intn(30), time.Month(1+g.r.intn(12)), 1+g.r.intn(28), 0, 0, 0, 0, time.UTC)
		return "'" + t.Format("2006-01-02") + "'", bigNanos(t)
	case 3:
		t := time.Date(2000+g.r.intn(30), time.Month(1+g.r.intn(12)), 1+g.r.intn(28), g.r.intn(24), g.r.intn(60), g.r.intn(60), 0, time.UTC)
		return "'" + t.Format("2006-01-02 15:04:05") + "'", bigNanos(t)
	case 4:
		d := time.Duration(g.r.intn(100000)) * pick(g.r, []time.Duration{time.Second, time.Millisecond, time.Microsecond, time.Nanosecond, 1500 * time.Millisecond, 90 * time.Minute})
		return influxql.FormatDuration(d), big.NewInt(int64(d))
	case 5:
		d := time.Duration(g.r.intn(100000)) * time.Minute
		return "now() - " + influxql.FormatDuration(d), new(big.Int).Sub(bigNanos(c10Now), big.NewInt(int64(d)))
	case 6:
		d := time.Duration(g.r.intn(1000)) * time.Hour
		return "now() + " + influxql.FormatDuration(d), new(big.Int).Add(bigNanos(c10Now), big.NewInt(int64(d)))
	default:
		return "now()", bigNanos(c10Now)
	}
}

func cmpHolds(op string, a, b *big.Int) bool {
	c := a.Cmp(b)
	switch op {
	case "=":
		return c == 0
	case "<":
		return c < 0
	case "<=":
		return c <= 0
	case ">":
		return c > 0
	case ">=":
		return c >= 0
	}
	return false
}

var flipOp = map[string]string{"=": "=", "<": ">", "<=": ">=", ">": "<", ">=": "<="}

func (g *c10gen) timePred() c10pred {
	op := pick(g.r, []string{"=", "<", "<=", ">", ">="})
	lit, inst := g.timeLit()
	name := pick(g.r, []string{"time", "time", "time", "TIME", "Time", "\"time\""})
	if g.r.chance(1, 3) { // literal on the left: lit OP time  means  time flip(OP) lit
		return c10pred{text: lit + " " + op + " " + name, bound: inst, holds: func(ts *big.Int, _ map[string]interface{}) bool { return cmpHolds(flipOp[op], ts, inst) }}
	}
	return c10pred{text: name + " " + op + " " + lit, bound: inst, holds: func(ts *big.Int, _ map[string]interface{}) bool { return cmpHolds(op, ts, inst) }}
}

func (g *c10gen) tagPred() c10pred {
	switch g.r.intn(6) {
	case 0:
		v := pick(g.r, []string{"a", "b", "c"})
		return c10pred{text: "host = '" + v + "'", holds: func(_ *big.Int, t map[string]interface{}) bool { return t["host"] == v }}
	case 1:
		v := pick(g.r, []string{"a", "b"})
		return c10pred{text: "region != '" + v + "'", holds: func(_ *big.Int, t map[string]interface{}) bool { return t["region"] != v }}
	case 2:
		n := int64(g.r.intn(5))
		return c10pred{text: fmt.Sprintf("value > %d", n), holds: func(_ *big.Int, t map[string]interface{}) bool { return t["value"].(int64) > n }}
	case 3:
		n := int64(g.r.intn(5))
		return c10pred{text: fmt.Sprintf("%d >= value", n), holds: func(_ *big.Int, t map[string]interface{}) bool { return n >= t["value"].(int64) }}
	case 4:
		re := pick(g.r, []string{"^a", "b$", "a|c"})
		rx := regexp.MustCompile(re)
		return c10pred{text: "host =~ /" + re + "/", holds: func(_ *big.Int, t map[string]interface{}) bool { return rx.MatchString(t["host"].(string)) }}
	default:
		b := g.r.chance(1, 2)
		return c10pred{text: fmt.Sprint(b), holds: func(_ *big.Int, _ map[string]interface{}) bool { return b }}
	}
}

// nonTime: non-time predicates joined by AND / OR / parentheses
func (g *c10gen) nonTime(depth int) c10pred {
	if depth == 0 || g.r.chance(1, 2) {
		return g.tagPred()
	}
	a, b := g.nonTime(depth-1), g.nonTime(depth-1)
	if g.r.chance(1, 2) {
		return c10pred{text: "(" + a.text + " OR " + b.text + ")", holds: func(ts *big.Int, t map[string]interface{}) bool { return a.holds(ts, t) || b.holds(ts, t) }}
	}
	p := c10pred{text: a.text + " AND " + b.text, holds: func(ts *big.Int, t map[string]interface{}) bool { return a.holds(ts, t) && b.holds(ts, t) }}
	if g.r.chance(1, 3) {
		p.text = "(" + p.text + ")"
	}
	return p
}

// cond: time comparisons joined to other predicates by AND and parentheses
func (g *c10gen) cond(depth int, bounds *[]*big.Int) c10pred {
	if depth == 0 {
		if g.r.chance(1, 2) {
			p := g.timePred()
			*bounds = append(*bounds, p.bound)
			return p
		}
		return g.nonTime(2)
	}
	a, b := g.cond(depth-1, bounds), g.cond(depth-1, bounds)
	p := c10pred{text: a.text + " AND " + b.text, holds: func(ts *big.Int, t map[string]interface{}) bool { return a.holds(ts, t) && b.holds(ts, t) }}
	if g.r.chance(1, 3) {
		p.text = "(" + p.text + ")"
	}
	return p
}

func bigOfTime(t time.Time) *big.Int { return bigNanos(t) }

// c10Scribble: what ConditionExpr returned is the caller's to change; overwriting every literal in it must not reach
// any later split (nothing handed out is shared with a later result)
func c10Scribble(e influxql.Expr) {
	if e == nil {
		return
	}
	safely(func() {
		influxql.WalkFunc(e, func(n influxql.Node) {
			switch x := n.(type) {
			case *influxql.BooleanLiteral:
				x.Val = !x.Val
			case *influxql.StringLiteral:
				x.Val = "scribbled"
			case *influxql.IntegerLiteral:
				x.Val = -12345
			case *influxql.VarRef:
				x.Val = "scribbled_" + x.Val
			}
		})
	})
}

func c10One(o *out, p c10pred, bounds []*big.Int, tag string) {
	cond, err := influxql.ParseExpr(p.text)
	if err != nil {
		return
	}
	defer func() {
		// after everything has been compared: scribble over a result of this text, for the splits that follow
		if c2, err := influxql.ParseExpr(p.text); err == nil {
			var r influxql.Expr
			safely(func() { r, _, _ = influxql.ConditionExpr(c2, &influxql.NowValuer{Now: c10Now}) })
			c10Scribble(r)
		}
	}()
	o.count(tag)
	valuer := &influxql.NowValuer{Now: c10Now}
	var resid influxql.Expr
	var tr influxql.TimeRange
	var cerr error
	var pn interface{}
	func() {
		defer func() { pn = recover() }()
		resid, tr, cerr = influxql.ConditionExpr(cond, valuer)
	}()
	rp := map[string]interface{}{"op": "condition", "text": p.text}
	o.checked()
	if pn != nil {
		o.fail("", fmt.Sprintf("ConditionExpr(%s) panics: %v", p.text, pn), rp)
		return
	}
	// correspondence
	resp := "(1)"
	if cerr == nil {
		var b sb
		b.open()
		b.atom(0)
		b.sp()
		b.optExpr(resid)
		b.sp()
		for _, t := range []time.Time{tr.Min, tr.Max} {
			if t.IsZero() {
				b.WriteString("(0) ")
			} else {
				b.WriteString("(1 " + timeNanosString(t) + ") ")
			}
		}
		b.atom(tr.MinTimeNano())
		b.sp()
		b.atom(tr.MaxTimeNano())
		b.close()
		resp = b.String()
	}
	req, uses := withSemOracles("(18 (1 "+bigNanos(c10Now).String()+") "+exprSexp(cond)+")", cond)
	o.addCaseVM(req, resp, "ConditionExpr "+p.text, !uses && asciiNoFloat(p.text))
	if p.holds == nil {
		return
	}
	if cerr != nil {
		o.fail("", fmt.Sprintf("ConditionExpr(%s) fails: %v", p.text, cerr), rp)
		return
	}
	// points: at and one nanosecond around every bound, far away on both sides; every tag combination
	var tss []*big.Int
	for _, b := range bounds {
		for _, d := range []int64{-1, 0, 1} {
			tss = append(tss, new(big.Int).Add(b, big.NewInt(d)))
		}
	}
	tss = append(tss, big.NewInt(math.MinInt64+2), big.NewInt(math.MaxInt64-1), big.NewInt(0))
	for _, ts := range tss {
		if !ts.IsInt64() {
			continue
		}
		for _, host := range []string{"a", "b", "c"} {
			for _, region := range []string{"a", "x"} {
				for _, value := range []int64{0, 2, 4} {
					tags := map[string]interface{}{"host": host, "region": region, "value": value}
					o.checked()
					want := p.holds(ts, tags)
					inRange := true
					if !tr.Min.IsZero() && bigOfTime(tr.Min).Cmp(ts) > 0 {
						inRange = false
					}
					if !tr.Max.IsZero() && bigOfTime(tr.Max).Cmp(ts) < 0 {
						inRange = false
					}
					// the nanosecond accessors must describe the same inclusive range
					inNano := ts.Int64() >= tr.MinTimeNano() && ts.Int64() <= tr.MaxTimeNano()
					res := true
					if resid != nil {
						res = influxql.EvalBool(resid, tags)
					}
					if (inRange && res) != want || inNano != inRange {
						o.fail("", fmt.Sprintf("%s at ts=%s %v: holds=%v, but in range [%v, %v]=%v (nanos %v) and residual %v = %v", p.text, ts, tags, want,
							tr.Min, tr.Max, inRange, inNano, resid, res), rp)
						return
					}
				}
			}
		}
	}
}

// the same instant however it is written: in every zone of the valuer a date-only bound means midnight of that day
// in that zone, exactly like its date-time spelling
func c10Zones(o *out) {
	zones := []*time.Location{time.UTC, time.FixedZone("plus5", 5*3600), time.FixedZone("minus8", -8*3600), time.FixedZone("half", 5*3600+1800)}
	for _, loc := range zones {
		for _, day := range []string{"2000-01-01", "2015-09-19", "1999-12-31", "2024-02-29"} {
			for _, op := range []string{">=", ">", "<", "<=", "="} {
				o.count("zones")
				o.checked()
				// the zone may sit anywhere in a composed valuer: behind a member that knows no zone, or nested
				shapes := []influxql.Valuer{
					&influxql.NowValuer{Now: c10Now, Location: loc},
					influxql.MultiValuer(&influxql.NowValuer{Now: c10Now}, &influxql.NowValuer{Now: c10Now, Location: loc}),
					influxql.MultiValuer(influxql.MapValuer{"x": int64(1)}, influxql.MultiValuer(&influxql.NowValuer{Now: c10Now}), &influxql.NowValuer{Now: c10Now, Location: loc}),
					influxql.MultiValuer(&influxql.NowValuer{Now: c10Now, Location: loc}, &influxql.NowValuer{Now: c10Now}),
				}
				for _, v := range shapes {
					a, erra := influxql.ParseExpr("time " + op + " '" + day + "'")
					b, errb := influxql.ParseExpr("time " + op + " '" + day + " 00:00:00'")
					c, errc := influxql.ParseExpr("time " + op + " '" + day + "T00:00:00Z'")
					if erra != nil || errb != nil || errc != nil {
						continue
					}
					_, ta, e1 := influxql.ConditionExpr(a, v)
					_, tb, e2 := influxql.ConditionExpr(b, v)
					_, tc, e3 := influxql.ConditionExpr(c, v)
					rp := map[string]interface{}{"op": "condition_zone", "text": "time " + op + " '" + day + "'", "zone": loc.String()}
					if e1 != nil || e2 != nil || e3 != nil {
						o.fail("", fmt.Sprintf("time %s '%s' in zone %s: %v %v %v", op, day, loc, e1, e2, e3), rp)
						continue
					}
					d, _ := time.ParseInLocation("2006-01-02", day, loc)
					want := d
					if !ta.Min.Equal(tb.Min) || !ta.Max.Equal(tb.Max) {
						o.fail("", fmt.Sprintf("in zone %s, time %s '%s' gives [%v, %v] but its date-time spelling '%s 00:00:00' gives [%v, %v]", loc, op, day, ta.Min, ta.Max, day, tb.Min, tb.Max), rp)
						continue
					}
					got := ta.Min
					if op == "<" || op == "<=" {
						got = ta.Max
					}
					switch op {
					case ">":
						want = want.Add(time.Nanosecond)
					case "<":
						want = want.Add(-time.Nanosecond)
					}
					if !got.Equal(want) {
						o.fail("", fmt.Sprintf("in zone %s, time %s '%s' bounds at %v, expected %v (midnight of that day in the zone)", loc, op, day, got, want), rp)
					}
					// an explicit Z is UTC whatever the zone
					dz, _ := time.Parse("2006-01-02", day)
					gz := tc.Min
					if op == "<" || op == "<=" {
						gz = tc.Max
					}
					wz := dz
					switch op {
					case ">":
						wz = wz.Add(time.Nanosecond)
					case "<":
						wz = wz.Add(-time.Nanosecond)
					}
					if !gz.Equal(wz) {
						o.fail("", fmt.Sprintf("in zone %s, time %s '%sT00:00:00Z' bounds at %v, expected %v", loc, op, day, gz, wz), rp)
					}
				}
			}
		}
	}
}

func propC10(o *out, r *rng, thorough bool) {
	c10Zones(o)
	g := &c10gen{r: r}
	n := 1500
	if thorough {
		n = 60000
	}
	for i := 0; i < n; i++ {
		var bounds []*big.Int
		p := g.cond(r.intn(4), &bounds)
		c10One(o, p, bounds, fmt.Sprintf("bounds=%d", len(bounds)))
		o.nontrivial(p.text)
		if i < 6 {
			o.sample(p.text)
		}
	}
	// single bounds: every operator x side x literal form, strictness by exactly one nanosecond
	for i := 0; i < n/3; i++ {
		p := g.timePred()
		c10One(o, p, []*big.Int{p.bound}, "single")
	}
	// outside the class: compared for correspondence only (errors, time under OR, !=, calls)
	for _, w := range []string{"time != 5", "time > 1 OR host = 'a'", "host", "time > 'x'", "time > 9223372036854775807", "time < -9223372036854775807",
		"time > '2262-04-11T23:47:16.854775806Z'", "time >= '2262-04-11T23:47:16.854775806Z'", "time <= '2262-04-11T23:47:16.854775806Z'", "time = '2262-04-11T23:47:16.854775806Z'", "'2262-04-11T23:47:16.854775806Z' >= time",
		"time > '2262-04-11T23:47:16.854775805Z'", "time < '2262-04-11T23:47:16.854775807Z'", "time >= '1677-09-21T00:12:43.145224194Z'", "time = '1677-09-21T00:12:43.145224194Z'", "time > now() + 8000d",
		"time > '2262-04-12T00:00:00Z'", "time > '1677-09-21T00:12:43.145224191Z'", "time > '1677-09-21T00:12:43.145224193Z'", "time > now()", "time > f()", "time > 1.5", "time > 1e3",
		"time = 1 AND time = 2", "time > host", "(time > 5)", "((host = 'a'))", "true", "false", "true AND true", "host = 'a' AND true", "time > now() - 1h - 1h", "time > 1h + 1h",
		"time > '2000-01-01' + 1d", "time >= '2000-01-01' AND time < '2000-01-01' + 1w", "now() > time", "5 < time", "'2000-01-01' <= time", "time =~ /a/", "value + 1 > 2", "time + 1 > 2",
		// integers beyond int64 are unsigned literals: no instant has such a number of nanoseconds
		"time < 9223372036854775808", "time > 18446744073709551615", "time = 9223372036854775808", "9223372036854775808 > time", "time >= 9223372036854775808 AND host = 'a'", "time < 18446744073709551616",
		"time > -9223372036854775808", "time < -9223372036854775808", "time > 9223372036854775807 - 1", "time = 10 AND time > 20", "time > 20 AND time = 10", "time = 10 AND time = 10 AND time < 5", "time = 10 AND time >= 10",
		"time = '2000-01-01T00:00:00Z' AND time > '2001-01-01T00:00:00Z'", "time < 5 AND time = 7 AND host = 'a'",
		strings.Repeat("(", 50) + "time > 1" + strings.Repeat(")", 50)} {
		c10One(o, c10pred{text: w}, nil, "outside-class")
	}
}

func init() {
	props["C10"] = propC10
	replayers["condition_zone"] = func(o *out, rp map[string]interface{}) { c10Zones(o) }
	replayers["condition"] = func(o *out, rp map[string]interface{}) {
		fmt.Println("replay of", rpStr(rp, "text"), "- the generated condition carries its own semantics; re-running the generator")
		propC10(o, newRng(1), false)
	}
}
