package main

import (
	"os/exec"
	"context"
	"os"
	"fmt"
	"strings"
	"time"

	"github.com/influxdata/influxql"
)

// C04: parsing is total — an AST or an error, never a panic or a hang — for any
// byte sequence and any parameter binding; results can be printed and walked.

func mutate(r *rng, s string) string {
	b := []byte(s)
	switch r.intn(9) {
	case 0: // truncate
		if len(b) > 0 {
			b = b[:r.intn(len(b))]
		}
	case 1: // delete a byte
		if len(b) > 0 {
			i := r.intn(len(b))
			b = append(b[:i:i], b[i+1:]...)
		}
	case 2: // flip a byte
		if len(b) > 0 {
			b[r.intn(len(b))] = byte(r.intn(256))
		}
	case 3: // insert a special
		sp := []string{"$", "'", "\"", "/", "\\", "(", ")", "-- ", "/*", "*/", ";", ",", ".", "::", ":", "\x00", "\n", "\r", "=~", "!~", "-", "+", "$x", "\xff", "µ", " ", "*"}
		i := r.intn(len(b) + 1)
		b = append(b[:i:i], append([]byte(pick(r, sp)), b[i:]...)...)
	case 4: // duplicate a token
		toks := strings.Fields(s)
		if len(toks) > 0 {
			i := r.intn(len(toks))
			toks = append(toks[:i+1], toks[i:]...)
			b = []byte(strings.Join(toks, " "))
		}
	case 5: // delete a token
		toks := strings.Fields(s)
		if len(toks) > 1 {
			i := r.intn(len(toks))
			toks = append(toks[:i:i], toks[i+1:]...)
			b = []byte(strings.Join(toks, " "))
		}
	case 6: // swap two tokens
		toks := strings.Fields(s)
		if len(toks) > 1 {
			i, j := r.intn(len(toks)), r.intn(len(toks))
			toks[i], toks[j] = toks[j], toks[i]
			b = []byte(strings.Join(toks, " "))
		}
	case 7: // replace a token by a placeholder
		toks := strings.Fields(s)
		if len(toks) > 0 {
			toks[r.intn(len(toks))] = pick(r, []string{"$p", "$q", "$", "$\"p\"", "-$p"})
			b = []byte(strings.Join(toks, " "))
		}
	case 8: // splice two
		if len(b) > 0 {
			i := r.intn(len(b))
			b = append(b[i:], b[:i]...)
		}
	}
	return string(b)
}

func c04Walk(n influxql.Node) (panicked interface{}) {
	defer func() {
		if r := recover(); r != nil {
			panicked = r
		}
	}()
	cnt := 0
	influxql.WalkFunc(n, func(influxql.Node) { cnt++ })
	if s, ok := n.(fmt.Stringer); ok {
		_ = s.String()
	}
	return nil
}

func c04One(o *out, text string, params map[string]interface{}, tag string) {
	o.count(tag)
	rp := map[string]interface{}{"op": "total", "text": text, "params": fmt.Sprintf("%#v", params)}
	budget := time.Duration(len(text))*20*time.Microsecond + 200*time.Millisecond
	// never a hang: a parse that has not returned after 100 budgets (and at least 10 s) is reported, and the run ends
	// there - a goroutine spinning inside the parser cannot be stopped
	watchdog := time.AfterFunc(100*budget+10*time.Second, func() {
		o.fail("", fmt.Sprintf("parsing %q did not return within %v: the parser hangs", text, 100*budget+10*time.Second), rp)
		o.finish()
		os.Exit(0)
	})
	defer watchdog.Stop()
	// ParseStatement
	t0 := time.Now()
	st, err, pn := addParseStmtCase(o, text, params)
	o.checked()
	if pn != nil {
		o.fail("", fmt.Sprintf("ParseStatement(%q) panics: %v", text, pn), rp)
	} else if err == nil {
		if p := c04Walk(st); p != nil {
			o.fail("", fmt.Sprintf("printing/walking the result of ParseStatement(%q) panics: %v", text, p), rp)
		}
	}
	// ParseQuery
	q, err, pn := addParseQueryCase(o, text, params)
	o.checked()
	if pn != nil {
		o.fail("", fmt.Sprintf("ParseQuery(%q) panics: %v", text, pn), rp)
	} else if err == nil {
		if p := c04Walk(q); p != nil {
			o.fail("", fmt.Sprintf("printing/walking the result of ParseQuery(%q) panics: %v", text, p), rp)
		}
	}
	// ParseExpr
	e, err, pn := addParseExprCase(o, text, params)
	o.checked()
	if pn != nil {
		o.fail("", fmt.Sprintf("ParseExpr(%q) panics: %v", text, pn), rp)
	} else if err == nil {
		if p := c04Walk(e); p != nil {
			o.fail("", fmt.Sprintf("printing/walking the result of ParseExpr(%q) panics: %v", text, p), rp)
		}
	}
	// the package-level helpers (ParseQuery(s), ParseStatement(s), ParseExpr(s)) are the same parse: no panic, and the
	// same statement or the same message as a parser made for the text
	if params == nil {
		var e1, e2, e3 error
		var s1 influxql.Statement
		var q1 *influxql.Query
		var x1 influxql.Expr
		pnH := safely(func() {
			s1, e1 = influxql.ParseStatement(text)
			q1, e2 = influxql.ParseQuery(text)
			x1, e3 = influxql.ParseExpr(text)
		})
		o.checked()
		same := func(a error, b error) bool { return (a == nil) == (b == nil) && (a == nil || a.Error() == b.Error()) }
		var f1, f2, f3 error
		safely(func() {
			_, f1 = influxql.NewParser(strings.NewReader(text)).ParseStatement()
			_, f2 = influxql.NewParser(strings.NewReader(text)).ParseQuery()
			_, f3 = influxql.NewParser(strings.NewReader(text)).ParseExpr()
		})
		if pnH != nil {
			o.fail("", fmt.Sprintf("a package-level parse helper panics on %q: %v", text, pnH), rp)
		} else if !same(e1, f1) || !same(e2, f2) || !same(e3, f3) {
			o.fail("", fmt.Sprintf("the package-level helpers answer %q with %v / %v / %v, a parser made for the text with %v / %v / %v", text, e1, e2, e3, f1, f2, f3), rp)
		}
		_, _, _ = s1, q1, x1
	}
	if el := time.Since(t0); el > 3*budget {
		// a slow run may be the machine's doing (a loaded host, a collection in the middle): the parse is timed again,
		// alone, three times, and only a text that is slow every time counts
		best := el
		for i := 0; i < 3; i++ {
			t1 := time.Now()
			safely(func() {
				p := influxql.NewParser(strings.NewReader(text))
				p.SetParams(params)
				p.ParseQuery()
			})
			if d := time.Since(t1); d < best {
				best = d
			}
		}
		if best > 3*budget {
			o.fail("", fmt.Sprintf("parsing %d bytes took %v, and %v at best when repeated (budget %v)", len(text), el, best, budget), rp)
		}
	}
}

func propC04(o *out, r *rng, thorough bool) {
	vals := c07Values(r)
	randParams := func() map[string]interface{} {
		if r.chance(1, 2) {
			return nil
		}
		ps := map[string]interface{}{"p": pick(r, vals), "q": pick(r, vals), "x": pick(r, vals)}
		// a parameter may be named anything - also like the message of another parameter's binding error, which is
		// what the parser puts in the place of an unbindable value
		for _, k := range []string{"p", "q", "x"} {
			if ev, ok := influxql.BindValue(ps[k]).(influxql.ErrorValue); ok && r.chance(1, 2) {
				ps[string(ev)] = pick(r, vals)
			}
		}
		return ps
	}
	n := 1500
	if thorough {
		n = 150000
	}
	corpus := loadCorpus("statements.json")
	// statements a later validation stage would reject: odd argument counts and kinds, unmutated
	for _, kind := range stmtKinds {
		for i := 0; i < n/60+3; i++ {
			c04One(o, genOddStatement(r, kind), nil, "odd:"+kind)
		}
	}
	for i := 0; i < n; i++ {
		var base string
		if r.chance(1, 2) && len(corpus) > 0 {
			base = pick(r, corpus)
		} else {
			base, _, _ = genStatement(r, pick(r, stmtKinds), r.chance(1, 2))
		}
		k := 1 + r.intn(3)
		for j := 0; j < k; j++ {
			base = mutate(r, base)
		}
		c04One(o, base, randParams(), "mutated")
		o.nontrivial(base)
		if i < 6 {
			o.sample(base)
		}
	}
	// systematic: for a base statement of every kind, every single token deleted, and every single token replaced by a
	// placeholder - so that "the token after X is missing" is covered at every position, not by luck
	perKind := 2
	if thorough {
		perKind = 12
	}
	for _, kind := range stmtKinds {
		for k := 0; k < perKind; k++ {
			base, _, _ := genStatement(r, kind, true)
			toks := strings.Fields(base)
			if len(toks) > 60 {
				continue
			}
			for i := range toks {
				del := append(append([]string{}, toks[:i]...), toks[i+1:]...)
				c04One(o, strings.Join(del, " "), nil, "systematic-delete")
				rep := append([]string{}, toks...)
				rep[i] = "$p"
				c04One(o, strings.Join(rep, " "), map[string]interface{}{"p": pick(r, vals)}, "systematic-replace")
			}
			c04One(o, strings.Join(toks, " ")+" "+toks[len(toks)-1], nil, "systematic-delete")
		}
	}
	// random bytes and random token soups
	for i := 0; i < n/3; i++ {
		l := r.intn(40)
		b := make([]byte, l)
		for j := range b {
			b[j] = byte(r.intn(256))
		}
		c04One(o, string(b), randParams(), "random-bytes")
		var sb strings.Builder
		for j := 0; j < 1+r.intn(12); j++ {
			sb.WriteString(pick(r, lexPieces))
			if r.chance(1, 2) {
				sb.WriteByte(' ')
			}
		}
		c04One(o, sb.String(), randParams(), "token-soup")
	}
	// unterminated constructs, stray markers, sign handling with every following token kind
	for _, w := range []string{"'abc", "\"abc", "/* abc", "SELECT /abc", "SELECT 'a\\", "SELECT \"a\\", "$", "$$", "SELECT $", "SELECT -", "SELECT -'x' FROM m", "SELECT -true FROM m",
		"SELECT -$p FROM m", "SELECT - - 1 FROM m", "SELECT -/re/ FROM m", "SELECT -* FROM m", "SELECT -(1) FROM m", "SELECT -f(x) FROM m", "SELECT -\"q\" FROM m", "SELECT -1s FROM m",
		"SELECT -9223372036854775808 FROM m", "SELECT -9223372036854775809 FROM m", "SELECT -18446744073709551615 FROM m", "SELECT +9223372036854775808 FROM m", "SELECT -1.5 FROM m",
		"SELECT x =~ 1 FROM m", "SELECT v FROM m WHERE x =~ y", "SELECT v FROM m WHERE x !~", "SELECT v FROM m WHERE x =~ $p", "SELECT v FROM m WHERE =~ /a/", "SELECT * FROM", "SELECT", "",
		"SELECT v FROM m LIMIT 9223372036854775808", "SELECT v FROM m LIMIT 99999999999999999999 OFFSET 1", "SELECT v FROM m SLIMIT 1 SOFFSET 18446744073709551616", "SHOW MEASUREMENTS LIMIT 9223372036854775808",
		"SELECT v FROM m LIMIT 9223372036854775807", "SELECT v FROM m LIMIT 00000000000000000000001",
		";", ";;;", " ", "\x00", "SELECT v FROM m GROUP BY time()", "SELECT top() FROM m", "SELECT v FROM m fill()", "SELECT v FROM m tz()", "SELECT v FROM m tz(1)", "SELECT v FROM a.b.c.d",
		"SELECT v FROM m LIMIT -1", "SELECT v FROM m LIMIT 99999999999999999999", "SELECT 1e5 FROM m", "SELECT 99999999999999999999 FROM m", "SELECT 9999999999999999999s FROM m",
		"SELECT v FROM m WHERE time > 1.5.5", "CREATE CONTINUOUS QUERY q ON d BEGIN SELECT count(v) INTO t FROM m GROUP BY time() END",
		"CREATE CONTINUOUS QUERY q ON d BEGIN SELECT count(v) INTO t FROM m GROUP BY time(x) END", "CREATE CONTINUOUS QUERY q ON d BEGIN SELECT count(v) INTO t FROM m GROUP BY time(1s, 2s, 3s) END",
		"CREATE CONTINUOUS QUERY q ON d RESAMPLE FOR 1s BEGIN SELECT count(v) INTO t FROM m GROUP BY time(0s) END", "CREATE CONTINUOUS QUERY q ON d BEGIN SELECT count(v) INTO t FROM m GROUP BY host, time(1) END",
		"CREATE CONTINUOUS QUERY q ON d BEGIN SELECT count(v) FROM m GROUP BY time(1m) END", "CREATE CONTINUOUS QUERY q ON d BEGIN SELECT v INTO t FROM m END garbage", "KILL QUERY 99999999999999999999", "DROP SHARD -1", "SELECT mean(v) FROM m GROUP BY time(5µ1m)", "SELECT v FROM m WHERE time > now() - 1µ2m", "SELECT v FROM m WHERE d = $p AND e = 7µ1m",
		"SELECT *::foo FROM cpu", "SELECT *::\n  foo FROM cpu", "SELECT *:: FROM m", "SELECT x::foo FROM m", "SELECT x:: FROM m", "SELECT mean(*::foo) FROM m", "SELECT *::field::tag FROM m",
		"SELECT a, *::\r\n\tbar, c FROM m", "SELECT * ::field FROM m", "SELECT v FROM m GROUP BY *::foo", "SELECT DISTINCT 5 FROM m", "SELECT DISTINCT( FROM m", "SELECT count(DISTINCT) FROM m",
		"SELECT value /* a * b / c", "/*", "SELECT 1 /* x *", "SELECT v FROM m -- c", "SELECT v FROM m /* never closed", "CREATE RETENTION POLICY p ON d DURATION 3µ4ms REPLICATION 1", "CREATE RETENTION POLICY p ON d DURATION 1h REPLICATION 0", "SELECT v INTO FROM m", "CREATE SUBSCRIPTION s ON d.r DESTINATIONS ALL 'udp://h1:9093', 'udp://h1:9093'", "CREATE SUBSCRIPTION s ON d.r DESTINATIONS ANY 'a', 'b', 'a', 'a'", "SHOW TAG VALUES WITH KEY IN (k, k, k)",
		"value > $threshold", "f($x)", "$\"multi word\" + 1", "-$x", "host =~ $re", "\rSELECT", "SELECT value\rFROM cpu\rWHERE", "a +\r", "SELECT\r\r\rv FROM\r", "SELECT v\r\nFROM m\rWHERE\n\rx =", "\r\r\r\r\r)", "SELECT \"caf\xe9\xe8\" FRM cpu", "SELECT v FROM m WHERE f(time > 0)",
		"SELECT mean(*) + max(*) FROM cpu", "SELECT top(*, *, 3) FROM cpu", "SELECT max(/^a/) - min(/^b/) FROM cpu",
		"SELECT \"ȺȺȺȺȺȺ\" FROM cpu", "SELECT v FROM \"ȺȺȺȺȺȺ\".a.b.c", "SELECT v FROM \"ȾȾȾȾȾȾȾȾ\".\"Ⱥ\".b.c.d", "SELECT v FROM $p.a.b.c", "DROP MEASUREMENT \"ȺȺȺȺȺȺȺȺ\" x", "SELECT ȺȺȺȺȺȺ FROM m"} {
		for _, ps := range []map[string]interface{}{nil, {"p": int64(1)}, {"p": "s"}, {"p": map[string]interface{}{"regex": "("}}, {"p": map[string]interface{}{"duration": "zz"}}, {"p": map[string]interface{}{"duration": "7µ1m"}}, {"p": float64(-1.5)}, {"p": true},
			{"p": map[string]interface{}{"identifier": "\xff\xfe\xff\xfe\xff\xfe"}}, {"p": map[string]interface{}{"identifier": "ȺȺȺȺȺȺȺȺ"}}} {
			c04One(o, w, ps, "witness")
		}
	}
	// lengths at which a fixed buffer would end: names, strings, numbers, comments, regexes, argument lists
	for _, n := range []int{15, 16, 17, 31, 32, 33, 63, 64, 65, 127, 128, 129, 255, 256, 257, 4095, 4096, 4097} {
		for _, unit := range []string{"a", "é", "Ⱥ", "_"} {
			if n > 300 && unit != "a" {
				continue
			}
			id := strings.Repeat(unit, n)
			c04One(o, "SELECT "+id+" FROM "+id+"."+id+"."+id+" WHERE "+id+" = '"+id+"' GROUP BY "+id, nil, "length")
			c04One(o, "SELECT \""+id+"\" AS \""+id+"\" FROM m WHERE x =~ /"+id+"/ -- "+id, nil, "length")
			c04One(o, "DROP MEASUREMENT "+id+" "+id, nil, "length")
			c04One(o, "SELECT $"+id+" FROM m", map[string]interface{}{id: id}, "length")
		}
		if n > 300 {
			continue
		}
		c04One(o, "SELECT "+strings.Repeat("9", n)+" FROM m LIMIT "+strings.Repeat("0", n)+"1", nil, "length")
		c04One(o, "SELECT 0."+strings.Repeat("9", n)+", 1"+strings.Repeat("0", n)+".5 FROM m", nil, "length")
		c04One(o, "SELECT f("+strings.Repeat("a, ", n)+"a) FROM m /* "+strings.Repeat("*", n)+" */", nil, "length")
		c04One(o, "SELECT a"+strings.Repeat(", a", n)+" FROM m"+strings.Repeat(", m", n), nil, "length")
	}
	// nesting and length
	depths := []int{10, 100, 1000}
	if thorough {
		depths = append(depths, 10000)
	}
	for _, d := range depths {
		c04One(o, "SELECT "+strings.Repeat("(", d)+"x"+strings.Repeat(")", d)+" FROM m", nil, "deep-parens")
		c04One(o, "SELECT "+strings.Repeat("(", d)+"x", nil, "deep-parens-open")
		c04One(o, "SELECT "+strings.Repeat("f(", d)+"x"+strings.Repeat(")", d)+" FROM m", nil, "deep-calls")
		ds := d
		if ds > 2000 { // each subquery level costs the extracted model several stack frames and a pass over the rest of the text
			ds = 2000
		}
		c04One(o, "SELECT v FROM "+strings.Repeat("(SELECT v FROM ", ds)+"m"+strings.Repeat(")", ds), nil, "deep-subqueries")
		c04One(o, "SELECT "+strings.Repeat("-", d)+"x FROM m", nil, "sign-chain")
		c04One(o, "SELECT x"+strings.Repeat(" + x", d)+" FROM m", nil, "long-chain")
		c04One(o, "SELECT x"+strings.Repeat(" OR x AND x = x + x * x", d/5+1)+" FROM m", nil, "long-mixed-chain")
		c04One(o, "SELECT v FROM m WHERE x = '"+strings.Repeat("a", d*10)+"'", nil, "long-string")
		c04One(o, strings.Repeat(";", d)+"SELECT 1 FROM m"+strings.Repeat(" ", d), nil, "semicolons")
		c04One(o, strings.Repeat("SELECT v FROM m;", d/10+1), nil, "many-statements")
	}
	// beyond what a guarded call can survive: about a million nested parentheses end the PROCESS (fatal error: stack
	// overflow cannot be recovered), so the probe runs in a child process
	c04StackProbe(o, 100000)
	c04StackProbe(o, 1000000)
}

func c04StackProbe(o *out, depth int) {
	o.count("stack-probe")
	o.checked()
	ctx, cancel := context.WithTimeout(context.Background(), 120*time.Second)
	defer cancel()
	cmd := exec.CommandContext(ctx, os.Args[0], "stackprobe", fmt.Sprint(depth))
	outb, err := cmd.CombinedOutput()
	if err == nil && strings.Contains(string(outb), "returned") {
		return
	}
	first := strings.SplitN(strings.TrimSpace(string(outb)), "\n", 2)[0]
	class := ""
	if strings.Contains(string(outb), "stack overflow") || strings.Contains(string(outb), "goroutine stack exceeds") {
		class = "C04-deep-nesting-stack"
	}
	o.fail(class, fmt.Sprintf("ParseStatement on %d nested parentheses ends the process: %v: %s", depth, err, first), map[string]interface{}{"op": "stack_probe", "depth": depth})
}

func init() {
	props["C04"] = propC04
	replayers["stack_probe"] = func(o *out, rp map[string]interface{}) {
		d, _ := rp["depth"].(float64)
		c04StackProbe(o, int(d))
	}
	replayers["total"] = func(o *out, rp map[string]interface{}) {
		r := newRng(1)
		c04One(o, rpStr(rp, "text"), nil, "replay")
		for _, v := range c07Values(r) {
			c04One(o, rpStr(rp, "text"), map[string]interface{}{"p": v, "q": v, "x": v}, "replay")
		}
	}
}
