package main

import (
	"encoding/json"
	"os"
	"path/filepath"
)

// loadCorpus reads a JSON list of strings from /verif/corpus.
func loadCorpus(name string) []string {
	exe, _ := os.Executable()
	root := filepath.Dir(filepath.Dir(exe)) // .build/harness -> /verif
	data, err := os.ReadFile(filepath.Join(root, "corpus", name))
	if err != nil {
		return nil
	}
	var out []string
	_ = json.Unmarshal(data, &out)
	return out
}
