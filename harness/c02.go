package main

import (
	"fmt"
	"reflect"
	"strings"

	"github.com/influxdata/influxql"
)

// C02: String() of every accepted statement re-parses to a structurally identical AST
// (password statements excepted: their text is redacted).

func isPasswordStmt(s influxql.Statement) bool {
	switch s.(type) {
	case *influxql.CreateUserStatement, *influxql.SetPasswordUserStatement:
		return true
	}
	return false
}

// topExprs: every expression held directly by a field of the statement (Walk does not descend into the condition
// of every statement kind, e.g. SHOW MEASUREMENTS ... WHERE)
func topExprs(st influxql.Statement) []influxql.Expr {
	var out []influxql.Expr
	exprT := reflect.TypeOf((*influxql.Expr)(nil)).Elem()
	var rec func(v reflect.Value, depth int)
	rec = func(v reflect.Value, depth int) {
		if depth > 6 || !v.IsValid() {
			return
		}
		switch v.Kind() {
		case reflect.Interface:
			if v.IsNil() {
				return
			}
			if v.Type() == exprT {
				out = append(out, v.Interface().(influxql.Expr))
				return
			}
			rec(v.Elem(), depth+1)
		case reflect.Ptr:
			if !v.IsNil() && v.Type().Elem().Kind() == reflect.Struct && strings.HasPrefix(v.Type().Elem().PkgPath(), "github.com/influxdata/influxql") {
				rec(v.Elem(), depth+1)
			}
		case reflect.Struct:
			for i := 0; i < v.NumField(); i++ {
				if v.Type().Field(i).IsExported() {
					rec(v.Field(i), depth+1)
				}
			}
		case reflect.Slice:
			for i := 0; i < v.Len(); i++ {
				rec(v.Index(i), depth+1)
			}
		}
	}
	rec(reflect.ValueOf(st), 0)
	return out
}

func c02Classify(st influxql.Statement, printed string) string {
	neg := false
	visit := func(n influxql.Node) {
		if e, ok := n.(influxql.Expr); ok && !neg && hasNegRHS(e) {
			neg = true
		}
	}
	influxql.WalkFunc(st, visit)
	for _, e := range topExprs(st) {
		influxql.WalkFunc(e, visit)
	}
	if neg {
		return "C02-neg-rhs"
	}
	if cd, ok := st.(*influxql.CreateDatabaseStatement); ok && cd.RetentionPolicyCreate && cd.RetentionPolicyDuration == nil &&
		cd.RetentionPolicyReplication == nil && cd.RetentionPolicyShardGroupDuration <= 0 && cd.FutureWriteLimit == nil &&
		cd.PastWriteLimit == nil && cd.RetentionPolicyName == "" {
		return "C02-createdb-bare-with"
	}
	quotedCall := false
	influxql.WalkFunc(st, func(n influxql.Node) {
		if c, ok := n.(*influxql.Call); ok && c.Name != "distinct" && influxql.IdentNeedsQuotes(c.Name) {
			quotedCall = true
		}
	})
	if quotedCall {
		return "C02-call-name-quoted"
	}
	return ""
}

func c02One(o *out, text string, kind string) {
	st, err := influxql.ParseStatement(text)
	if err != nil {
		return
	}
	o.count(kind)
	addPrintCase(o, st)
	if isPasswordStmt(st) {
		o.checked()
		printed := st.String()
		if !strings.Contains(printed, "[REDACTED]") {
			o.fail("", fmt.Sprintf("%q prints %q without [REDACTED]", text, printed), map[string]interface{}{"op": "reprint_stmt", "text": text})
		}
		return
	}
	o.checked()
	printed := st.String()
	rp := map[string]interface{}{"op": "reprint_stmt", "text": text}
	st2, err := influxql.ParseStatement(printed)
	if err != nil {
		o.fail(c02Classify(st, printed), fmt.Sprintf("%q prints %q which does not parse: %v", text, printed, err), rp)
		return
	}
	if stmtSexp(st) != stmtSexp(st2) {
		o.fail(c02Classify(st, printed), fmt.Sprintf("%q prints %q which re-parses to a different AST (%s)", text, printed, st2.String()), rp)
	}
	// printing shows the statement as it is now: printed again it is the same text, and a statement that was printed
	// and is then changed prints like one that was changed the same way and never printed
	o.checked()
	if again := st.String(); again != printed {
		o.fail("", fmt.Sprintf("%q prints %q the first time and %q the second", text, printed, again), rp)
	}
	if q, ok := st.(*influxql.SelectStatement); ok {
		change := func(s *influxql.SelectStatement) {
			s.Limit += 3
			s.Fields = append(s.Fields, &influxql.Field{Expr: &influxql.VarRef{Val: "added field"}, Alias: "x"})
			s.Condition = &influxql.BinaryExpr{Op: influxql.EQ, LHS: &influxql.VarRef{Val: "k"}, RHS: &influxql.StringLiteral{Val: "v'"}}
			for _, src := range s.Sources {
				if m, ok := src.(*influxql.Measurement); ok {
					m.Database += "db2"
				}
			}
		}
		if f, err := influxql.ParseStatement(text); err == nil {
			fresh := f.(*influxql.SelectStatement)
			cl := q.Clone()
			change(q)
			change(fresh)
			change(cl)
			o.checked()
			if a, b, c := q.String(), fresh.String(), cl.String(); a != b || c != b {
				o.fail("", fmt.Sprintf("after changing %q: a statement that was printed before prints %q, its clone %q, one that was never printed %q", text, a, c, b), rp)
			}
		}
	}
}

func propC02(o *out, r *rng, thorough bool) {
	per := 100
	if thorough {
		per = 10000
	}
	for _, s := range loadCorpus("statements.json") {
		c02One(o, s, "corpus")
	}
	for _, kind := range stmtKinds {
		for i := 0; i < per; i++ {
			text, _, _ := genStatement(r, kind, i%3 == 0)
			c02One(o, text, kind)
			o.nontrivial(text)
			if i < 1 {
				o.sample(text)
			}
		}
	}
	for _, w := range []string{"SELECT b / -a FROM m", "SELECT a FROM m WHERE x % -(y) = 1", "CREATE DATABASE d WITH SHARD DURATION INF",
		"SELECT \"my f\"(x) FROM m", "SELECT mean(v) FROM m GROUP BY time(1m) fill(2.0)", "SELECT mean(v) FROM m GROUP BY time(1m) fill(100000000000000000000000.0)",
		"SELECT mean(v) FROM m GROUP BY time(1m) fill(0.000000001)", "SELECT v FROM m ORDER BY \"time\" DESC", "SHOW TAG VALUES WITH KEY IN (\"a b\", c)",
		"SELECT 100000000000000000000000.0, 0.000000001 FROM m", "SELECT v FROM m WHERE t = 'a\\nb' AND \"x\\ny\" = 1", "SELECT * FROM \"a\".\"b\".\"c\" WHERE time > now() - 1h",
		"SELECT v::field, \"v w\"::tag FROM m", "CREATE DATABASE d WITH DURATION 0s", "SELECT v FROM m WHERE x =~ /a\\/b/ AND y !~ /\\d/",
		"SHOW TAG KEYS FROM cpu ORDER BY \"key\"", "SHOW MEASUREMENTS ORDER BY \"name\" DESC", "SHOW FIELD KEYS FROM cpu ORDER BY \"my column\" LIMIT 2", "SHOW SERIES ORDER BY \"a DESC, b\"", "SELECT v FROM m ORDER BY \"my col\" DESC",
		"SHOW TAG VALUES WITH KEY = k ORDER BY \"select\", host DESC", "SELECT \"a^b\" * c, x / \"p^q\" / y, \"a[0]\", \"a`b\" FROM m WHERE \"k^\" = 1", "SHOW MEASUREMENTS ON \"\".rp", "SHOW MEASUREMENTS ON \"\".*", "SHOW MEASUREMENTS ON \"\".\"\"", "SHOW MEASUREMENTS ON \"\"", "CREATE DATABASE x WITH NAME \"\"",
		"SELECT v FROM \"\".rp.m", "SELECT v FROM \"\"..m", "SELECT v INTO \"\".rp.t FROM m", "SELECT v INTO \"\".\"\".\"\" FROM m", "SHOW TAG KEYS ON \"\" FROM \"\""} {
		c02One(o, w, "witness")
	}
	// every backslash escape the scanner might accept, in a string and in a quoted name: what is accepted must print
	// in a form that reads back
	for c := rune(1); c < 0x100; c++ {
		if c == 0x80 {
			c = 0xa0
		}
		c02One(o, "SELECT v FROM m WHERE x = 'a\\"+string(c)+"b'", "escape")
		c02One(o, "SELECT \"a\\"+string(c)+"b\" FROM m", "escape")
	}
}

func init() {
	props["C02"] = propC02
	replayers["reprint_stmt"] = func(o *out, rp map[string]interface{}) { c02One(o, rpStr(rp, "text"), "replay") }
}
