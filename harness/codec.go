package main

import "github.com/influxdata/influxql"

// codec: every corpus statement the parser accepts is dumped and must be
// echoed unchanged by the model's decoder/encoder (op 6).
func propCodec(o *out, r *rng, thorough bool) {
	for _, s := range loadCorpus("statements.json") {
		st, err := influxql.ParseStatement(s)
		if err != nil {
			continue
		}
		d := stmtSexp(st)
		o.addCase("(6 "+d+")", d, s)
	}
}

func init() { props["codec"] = propCodec }
