package main

import (
	"fmt"
	"strings"

	"github.com/influxdata/influxql"
)

// C15: passwords never appear in printed statements or sanitized query text.

// fragments: every piece of the password that could survive a partial redaction (split at blanks, quotes, '=' and ';')
func pwFragments(pw string) []string {
	var out []string
	for _, f := range strings.FieldsFunc(pw, func(r rune) bool { return strings.ContainsRune(" \t\n'\"=;\\", r) }) {
		if len(f) >= 3 {
			out = append(out, f)
		}
	}
	return out
}

var c15Passwords = []string{"hunter--2", "x/*y", "a--", "--", "/*", "*/ x /*", "a/*b*/c", "-- x", "zq'xj", "'zqxj", "zq''xj'", "admin", "my secret", "pa55 w0rd with spaces", "it's", "say \"hi\" now", "a=b=c", "semi;colon;here", "back\\slash", "tab\there", "new\nline", "  leading", "trailing  ",
	"with password inner", "password for x = y", "'quoted'", "--comment", "/*block*/", "üñíçødé", "日本語パスワード", "x", "", "[REDACTED]", "a'b\"c\\d=e;f g",
	// passwords that spell a password clause themselves, with the quote that lets a nested match run out of the literal
	"a password for x = 'b", "set password for \"y z\" = 'zz' tail", "password for u=\"q", "with password 'inner", "x with password\"q\" y",
	"PASSWORD FOR a = 'b' WITH PASSWORD 'c'", "password\tfor\tx\t=\t'b"}
var c15Users = []string{"admin", "u", "my user", "a=b", "with password", "we\"ird", "üser", "select", "x.y", "pass word for", "", " ", "'"}

type c15Layout struct {
	name  string
	build func(user, pwlit string) string
	class string // "" = in the class the patterns handle; otherwise a known-finding id
}

func qid(u string) string { return quoteIdentAlways(u) }

var c15Layouts = []c15Layout{
	{"create", func(u, p string) string { return "CREATE USER " + qid(u) + " WITH PASSWORD " + p }, ""},
	{"create-admin", func(u, p string) string { return "create user " + qid(u) + " with password " + p + " WITH ALL PRIVILEGES" }, ""},
	{"create-mixedcase-ws", func(u, p string) string { return "Create\tUser " + qid(u) + "\nwItH \t\n PaSsWoRd\n\n" + p }, ""},
	{"create-no-space", func(u, p string) string { return "CREATE USER " + qid(u) + " WITH PASSWORD" + p }, ""},
	{"set", func(u, p string) string { return "SET PASSWORD FOR " + qid(u) + " = " + p }, ""},
	{"set-tight", func(u, p string) string { return "set password for " + qid(u) + "=" + p }, ""},
	{"set-ws", func(u, p string) string { return "SET\nPASSWORD\tFOR\n" + qid(u) + "\n=\n\t" + p }, ""},
	{"set-among", func(u, p string) string { return "SHOW DATABASES; SET PASSWORD FOR " + qid(u) + " = " + p + "; DROP DATABASE d" }, ""},
	{"create-among", func(u, p string) string { return "SELECT v FROM m;CREATE USER " + qid(u) + " WITH PASSWORD " + p + ";SHOW USERS" }, ""},
	{"two", func(u, p string) string { return "CREATE USER " + qid(u) + " WITH PASSWORD " + p + "; SET PASSWORD FOR " + qid(u) + " = " + p }, ""},
	// the scanner reads a bare part directly followed by a quoted part as ONE identifier (the value of the quoted part)
	{"set-name-in-parts", func(u, p string) string { return "SET PASSWORD FOR abc" + qid(u) + " = " + p }, ""},
	{"set-name-in-parts-tight", func(u, p string) string { return "set password for x_1" + qid(u) + "=" + p + "; SHOW USERS" }, ""},
	{"create-name-in-parts", func(u, p string) string { return "CREATE USER abc" + qid(u) + " WITH PASSWORD " + p }, ""},
	// runes that other layers take for white space: valid only if the scanner does too, and then Sanitize must as well
	{"create-vt", func(u, p string) string { return "CREATE USER " + qid(u) + " WITH\vPASSWORD\v" + p }, ""},
	{"create-nbsp", func(u, p string) string { return "CREATE USER " + qid(u) + " WITH\u00a0PASSWORD\u00a0" + p }, ""},
	{"create-nel-emspace", func(u, p string) string { return "CREATE USER " + qid(u) + " WITH\u0085PASSWORD\u2003" + p }, ""},
	{"set-exotic-blanks", func(u, p string) string { return "SET PASSWORD\u3000FOR\f" + qid(u) + "\u00a0=\v" + p }, ""},
	{"set-ff-cr", func(u, p string) string { return "SET PASSWORD\rFOR\r\n" + qid(u) + " =\r" + p }, ""},
	// an unbalanced quote earlier in the text, where it is not a quote: inside a regular expression, a comment, a
	// finished string of the other kind
	{"after-regex-apostrophe", func(u, p string) string { return "SELECT * FROM cpu WHERE host =~ /it's/; CREATE USER " + qid(u) + " WITH PASSWORD " + p }, ""},
	{"after-comment-apostrophe", func(u, p string) string { return "/* bob's account */ CREATE USER " + qid(u) + " WITH PASSWORD " + p }, ""},
	{"after-line-comment-quote", func(u, p string) string { return "-- it's \"new\n SET PASSWORD FOR " + qid(u) + " = " + p }, ""},
	{"after-regex-dquote", func(u, p string) string { return "SELECT v FROM m WHERE h !~ /a\"b/ ; SET PASSWORD FOR " + qid(u) + " = " + p + "; SELECT 1 FROM \"m'\"" }, ""},
	{"after-string-with-dquote", func(u, p string) string { return "SELECT v FROM m WHERE h = 'say \"' ; CREATE USER " + qid(u) + " WITH PASSWORD " + p }, ""},
	// spellings the grammar does not have today: they count only if the parser accepts them - and a parser that learns
	// one makes Sanitize responsible for it
	{"create-doubled-quote", func(u, p string) string { return "CREATE USER " + qid(u) + " WITH PASSWORD " + strings.Replace(p, "\\'", "''", -1) }, ""},
	{"set-doubled-quote", func(u, p string) string { return "SET PASSWORD FOR " + qid(u) + " = " + strings.Replace(p, "\\'", "''", -1) + "; SHOW USERS" }, ""},
	{"set-backquoted", func(u, p string) string { return "SET PASSWORD FOR `" + strings.Replace(u, "`", "", -1) + "` = " + p }, ""},
	{"create-backquoted", func(u, p string) string { return "CREATE USER `" + strings.Replace(u, "`", "", -1) + "` WITH PASSWORD " + p }, ""},
	{"set-bracketed", func(u, p string) string { return "SET PASSWORD FOR [" + strings.Replace(u, "]", "", -1) + "] = " + p }, ""},
	{"create-equals", func(u, p string) string { return "CREATE USER " + qid(u) + " WITH PASSWORD = " + p }, ""},
	{"create-equals-tight", func(u, p string) string { return "CREATE USER " + qid(u) + " WITH PASSWORD=" + p + " WITH ALL PRIVILEGES" }, ""},
	{"create-parens", func(u, p string) string { return "CREATE USER " + qid(u) + " WITH PASSWORD (" + p + ")" }, ""},
	{"create-identified", func(u, p string) string { return "CREATE USER " + qid(u) + " IDENTIFIED BY " + p }, ""},
	{"set-no-equals", func(u, p string) string { return "SET PASSWORD FOR " + qid(u) + " " + p }, ""},
	{"set-to", func(u, p string) string { return "SET PASSWORD FOR " + qid(u) + " TO " + p }, ""},
	{"set-double-equals", func(u, p string) string { return "SET PASSWORD FOR " + qid(u) + " == " + p }, ""},
	{"alter-user", func(u, p string) string { return "ALTER USER " + qid(u) + " WITH PASSWORD " + p }, ""},
	{"create-comment", func(u, p string) string { return "CREATE USER " + qid(u) + " WITH /* c */ PASSWORD " + p }, "C15-comment-in-clause"},
	{"create-line-comment", func(u, p string) string { return "CREATE USER " + qid(u) + " WITH -- c\n PASSWORD " + p }, "C15-comment-in-clause"},
	{"set-comment", func(u, p string) string { return "SET PASSWORD /* c */ FOR " + qid(u) + " = " + p }, "C15-comment-in-clause"},
	{"set-comment-eq", func(u, p string) string { return "SET PASSWORD FOR " + qid(u) + " /* c */ = /* d */ " + p }, "C15-comment-in-clause"},
}

func c15One(o *out, l c15Layout, user, pw string) {
	pwlit := influxql.QuoteString(pw)
	text := l.build(user, pwlit)
	q, err := influxql.ParseQuery(text)
	if err != nil {
		return // not a valid statement in this layout (e.g. a NUL): outside the property
	}
	o.count(l.name)
	san := influxql.Sanitize(text)
	o.addCaseVM("(22 "+textSexp(text)+")", textSexp(san), "Sanitize "+text, asciiNoFloat(text))
	rp := map[string]interface{}{"op": "sanitize", "text": text, "password": pw, "layout": l.name}
	// printed statements carry no password
	// (a fragment that is also printed for a different password - a keyword, the user name - is not a leak)
	other := ""
	if q2, err2 := influxql.ParseQuery(l.build(user, influxql.QuoteString("q9"))); err2 == nil {
		other = q2.String()
	}
	for _, st := range q.Statements {
		o.checked()
		s := st.String()
		for _, f := range pwFragments(pw) {
			if strings.Contains(s, f) && !strings.Contains(other, f) && !strings.Contains(strings.Replace(text, pwlit, "", -1), f) && !strings.Contains("[REDACTED]", f) {
				o.fail("", fmt.Sprintf("String() of %q contains the password fragment %q: %s", text, f, s), rp)
			}
		}
	}
	// the sanitized text: exactly the text with each password literal replaced
	o.checked()
	// (built by position: an empty password's literal '' may also occur inside the user name)
	const marker = "\x01\x02PW\x02\x01"
	want := strings.Replace(l.build(user, marker), marker, "[REDACTED]", -1)
	if user == "with password" || strings.Contains(strings.ToLower(user), "password") {
		// a user name that itself contains the clause keywords is redacted inside the name as well (finding)
		if san != want {
			o.fail("C15-keywords-in-name", fmt.Sprintf("Sanitize(%q) = %q: a user name containing the clause keywords derails the redaction", text, san), rp)
		}
		return
	}
	if san != want {
		class := l.class
		o.fail(class, fmt.Sprintf("Sanitize(%q) = %q, expected %q", text, san, want), rp)
	}
}

func propC15(o *out, r *rng, thorough bool) {
	for _, l := range c15Layouts {
		for _, u := range c15Users {
			for _, pw := range c15Passwords {
				c15One(o, l, u, pw)
				o.nontrivial(l.name + "|" + u + "|" + pw)
			}
		}
	}
	o.sample("CREATE USER \"my user\" WITH PASSWORD 'pa55 w0rd with spaces'")
	// random passwords and names from an alphabet of every special character
	alpha := []rune(" \t'\"\\=;abcXYZ019-/*.,()$é日w")
	n := 1500
	if thorough {
		n = 150000
	}
	for i := 0; i < n; i++ {
		var pw, u []rune
		for j := 0; j < r.intn(12); j++ {
			pw = append(pw, pick(r, alpha))
		}
		for j := 0; j < 1+r.intn(6); j++ {
			u = append(u, pick(r, alpha))
		}
		c15One(o, pick(r, c15Layouts), string(u), string(pw))
	}
	// passwords made of the words of the clauses themselves
	words := []string{"password", "PASSWORD", "for", "with", "WITH", "set", "=", " ", " ", "'", "\"", "\\", "x", "y z", ";", "\t"}
	for i := 0; i < n; i++ {
		var pw strings.Builder
		for j := 0; j < 2+r.intn(9); j++ {
			pw.WriteString(pick(r, words))
		}
		c15One(o, pick(r, c15Layouts), pick(r, []string{"u", "admin", "a=b"}), pw.String())
	}
	// text without password clauses is returned unchanged
	for _, s := range loadCorpus("statements.json") {
		if strings.Contains(strings.ToLower(s), "password") {
			continue
		}
		o.checked()
		san := influxql.Sanitize(s)
		o.addCaseVM("(22 "+textSexp(s)+")", textSexp(san), "Sanitize "+s, asciiNoFloat(s))
		if san != s {
			o.fail("", fmt.Sprintf("Sanitize changed a text without a password clause: %q -> %q", s, san), map[string]interface{}{"op": "sanitize_identity", "text": s})
		}
	}
	for _, w := range []string{"", "with password", "password for", "WITH PASSWORD 'x", "with password 'a\\", "set password for u = ", "paſſword for u = 'x'", "with\fpassword\v'x'", "with password 'a\nb'",
		"SELECT 'x with password y' FROM m", "with password x; with password y", "with password \"a b\" c", "password for \"a\\\"=b\" = 'p q'", "with password 'a''b'"} {
		san := influxql.Sanitize(w)
		o.addCaseVM("(22 "+textSexp(w)+")", textSexp(san), "Sanitize "+w, asciiNoFloat(w))
	}
}

func init() {
	props["C15"] = propC15
	replayers["sanitize"] = func(o *out, rp map[string]interface{}) {
		for _, l := range c15Layouts {
			if l.name == rpStr(rp, "layout") {
				for _, u := range c15Users {
					c15One(o, l, u, rpStr(rp, "password"))
				}
			}
		}
	}
	replayers["sanitize_identity"] = func(o *out, rp map[string]interface{}) {
		o.checked()
		if influxql.Sanitize(rpStr(rp, "text")) != rpStr(rp, "text") {
			o.fail("", "still changed", rp)
		}
	}
}
