package main

// Statement dumper for the syntax of coq/Ast/SexpAst.v: (tag field ...) with
// the fields in the order of the Coq constructor's arguments.

import (
	"time"

	"github.com/influxdata/influxql"
)

func (b *sb) optExpr(e influxql.Expr) {
	if e == nil || isNilExpr(e) {
		b.WriteString("(0)")
		return
	}
	b.WriteString("(1 ")
	b.expr(e)
	b.close()
}

// isNilExpr: a typed nil pointer inside the Expr interface.
func isNilExpr(e influxql.Expr) bool {
	switch v := e.(type) {
	case *influxql.RegexLiteral:
		return v == nil
	case *influxql.StringLiteral:
		return v == nil
	case *influxql.ListLiteral:
		return v == nil
	}
	return false
}

func (b *sb) optDur(d *time.Duration) {
	if d == nil {
		b.WriteString("(0)")
		return
	}
	b.WriteString("(1 "); b.atom(int64(*d)); b.close()
}
func (b *sb) optInt(d *int) {
	if d == nil {
		b.WriteString("(0)")
		return
	}
	b.WriteString("(1 "); b.atom(int64(*d)); b.close()
}

func (b *sb) measurement(m *influxql.Measurement) {
	b.open()
	b.text(m.Database); b.sp(); b.text(m.RetentionPolicy); b.sp(); b.text(m.Name); b.sp()
	if m.Regex == nil || m.Regex.Val == nil {
		b.WriteString("(0)")
	} else {
		b.WriteString("(1 "); b.text(m.Regex.Val.String()); b.close()
	}
	b.sp(); b.boolean(m.IsTarget); b.sp(); b.text(m.SystemIterator)
	b.close()
}

func (b *sb) source(s influxql.Source) {
	switch s := s.(type) {
	case *influxql.Measurement:
		b.WriteString("(1 "); b.measurement(s); b.close()
	case *influxql.SubQuery:
		b.WriteString("(2 "); b.selectStmt(s.Statement); b.close()
	default:
		b.WriteString("(-7)")
	}
}

func (b *sb) sources(ss influxql.Sources) {
	b.open()
	for i, s := range ss {
		if i > 0 {
			b.sp()
		}
		b.source(s)
	}
	b.close()
}

func (b *sb) dims(ds influxql.Dimensions) {
	b.open()
	for i, d := range ds {
		if i > 0 {
			b.sp()
		}
		b.expr(d.Expr)
	}
	b.close()
}

func (b *sb) sortFields(fs influxql.SortFields) {
	b.open()
	for i, f := range fs {
		if i > 0 {
			b.sp()
		}
		b.open(); b.text(f.Name); b.sp(); b.boolean(f.Ascending); b.close()
	}
	b.close()
}

func (b *sb) selectStmt(q *influxql.SelectStatement) {
	b.open()
	b.open()
	for i, f := range q.Fields {
		if i > 0 {
			b.sp()
		}
		b.open(); b.expr(f.Expr); b.sp(); b.text(f.Alias); b.close()
	}
	b.close(); b.sp()
	if q.Target == nil || q.Target.Measurement == nil {
		b.WriteString("(0)")
	} else {
		b.WriteString("(1 "); b.measurement(q.Target.Measurement); b.close()
	}
	b.sp(); b.dims(q.Dimensions); b.sp(); b.sources(q.Sources); b.sp(); b.optExpr(q.Condition); b.sp(); b.sortFields(q.SortFields)
	b.sp(); b.atom(int64(q.Limit)); b.sp(); b.atom(int64(q.Offset)); b.sp(); b.atom(int64(q.SLimit)); b.sp(); b.atom(int64(q.SOffset))
	b.sp(); b.boolean(q.IsRawQuery); b.sp(); b.atom(int64(q.Fill)); b.sp()
	switch v := q.FillValue.(type) {
	case nil:
		b.WriteString("(0)")
	case int64:
		b.WriteString("(1 "); b.atom(v); b.close()
	case float64:
		b.WriteString("(2 "); b.uatom(floatBits(v)); b.close()
	default:
		b.WriteString("(-6)")
	}
	b.sp()
	if q.Location == nil {
		b.WriteString("(0)")
	} else {
		b.WriteString("(1 "); b.text(q.Location.String()); b.close()
	}
	b.sp(); b.text(q.TimeAlias); b.sp(); b.boolean(q.OmitTime); b.sp(); b.boolean(q.StripName); b.sp(); b.text(q.EmitName); b.sp(); b.boolean(q.Dedupe)
	b.close()
}

func (b *sb) stmt(s influxql.Statement) {
	t := func(tag int64) { b.tag(tag) }
	switch s := s.(type) {
	case *influxql.AlterRetentionPolicyStatement:
		t(1); b.sp(); b.text(s.Name); b.sp(); b.text(s.Database); b.sp(); b.optDur(s.Duration); b.sp(); b.optInt(s.Replication); b.sp()
		b.boolean(s.Default); b.sp(); b.optDur(s.ShardGroupDuration); b.sp(); b.optDur(s.FutureWriteLimit); b.sp(); b.optDur(s.PastWriteLimit)
	case *influxql.CreateContinuousQueryStatement:
		t(2); b.sp(); b.text(s.Name); b.sp(); b.text(s.Database); b.sp(); b.selectStmt(s.Source); b.sp(); b.atom(int64(s.ResampleEvery)); b.sp(); b.atom(int64(s.ResampleFor))
	case *influxql.CreateDatabaseStatement:
		t(3); b.sp(); b.text(s.Name); b.sp(); b.boolean(s.RetentionPolicyCreate); b.sp(); b.optDur(s.RetentionPolicyDuration); b.sp()
		b.optInt(s.RetentionPolicyReplication); b.sp(); b.text(s.RetentionPolicyName); b.sp(); b.atom(int64(s.RetentionPolicyShardGroupDuration)); b.sp()
		b.optDur(s.FutureWriteLimit); b.sp(); b.optDur(s.PastWriteLimit)
	case *influxql.CreateRetentionPolicyStatement:
		t(4); b.sp(); b.text(s.Name); b.sp(); b.text(s.Database); b.sp(); b.atom(int64(s.Duration)); b.sp(); b.atom(int64(s.Replication)); b.sp()
		b.boolean(s.Default); b.sp(); b.atom(int64(s.ShardGroupDuration)); b.sp(); b.atom(int64(s.FutureWriteLimit)); b.sp(); b.atom(int64(s.PastWriteLimit))
	case *influxql.CreateSubscriptionStatement:
		t(5); b.sp(); b.text(s.Name); b.sp(); b.text(s.Database); b.sp(); b.text(s.RetentionPolicy); b.sp(); b.texts(s.Destinations); b.sp(); b.text(s.Mode)
	case *influxql.CreateUserStatement:
		t(6); b.sp(); b.text(s.Name); b.sp(); b.text(s.Password); b.sp(); b.boolean(s.Admin)
	case *influxql.DeleteSeriesStatement:
		t(7); b.sp(); b.sources(s.Sources); b.sp(); b.optExpr(s.Condition)
	case *influxql.DropContinuousQueryStatement:
		t(8); b.sp(); b.text(s.Name); b.sp(); b.text(s.Database)
	case *influxql.DropDatabaseStatement:
		t(9); b.sp(); b.text(s.Name)
	case *influxql.DropMeasurementStatement:
		t(10); b.sp(); b.text(s.Name)
	case *influxql.DropRetentionPolicyStatement:
		t(11); b.sp(); b.text(s.Name); b.sp(); b.text(s.Database)
	case *influxql.DropSeriesStatement:
		t(12); b.sp(); b.sources(s.Sources); b.sp(); b.optExpr(s.Condition)
	case *influxql.DropShardStatement:
		t(13); b.sp(); b.uatom(s.ID)
	case *influxql.DropSubscriptionStatement:
		t(14); b.sp(); b.text(s.Name); b.sp(); b.text(s.Database); b.sp(); b.text(s.RetentionPolicy)
	case *influxql.DropUserStatement:
		t(15); b.sp(); b.text(s.Name)
	case *influxql.ExplainStatement:
		t(16); b.sp(); b.selectStmt(s.Statement); b.sp(); b.boolean(s.Analyze); b.sp(); b.boolean(s.Verbose)
	case *influxql.GrantStatement:
		t(17); b.sp(); b.atom(int64(s.Privilege)); b.sp(); b.text(s.On); b.sp(); b.text(s.User)
	case *influxql.GrantAdminStatement:
		t(18); b.sp(); b.text(s.User)
	case *influxql.KillQueryStatement:
		t(19); b.sp(); b.uatom(s.QueryID); b.sp(); b.text(s.Host)
	case *influxql.RevokeStatement:
		t(20); b.sp(); b.atom(int64(s.Privilege)); b.sp(); b.text(s.On); b.sp(); b.text(s.User)
	case *influxql.RevokeAdminStatement:
		t(21); b.sp(); b.text(s.User)
	case *influxql.SelectStatement:
		t(22); b.sp(); b.selectStmt(s)
	case *influxql.SetPasswordUserStatement:
		t(23); b.sp(); b.text(s.Password); b.sp(); b.text(s.Name)
	case *influxql.ShowContinuousQueriesStatement:
		t(24)
	case *influxql.ShowDatabasesStatement:
		t(25)
	case *influxql.ShowDiagnosticsStatement:
		t(26); b.sp(); b.text(s.Module)
	case *influxql.ShowFieldKeyCardinalityStatement:
		t(27); b.sp(); b.text(s.Database); b.sp(); b.boolean(s.Exact); b.sp(); b.sources(s.Sources); b.sp(); b.optExpr(s.Condition); b.sp()
		b.dims(s.Dimensions); b.sp(); b.atom(int64(s.Limit)); b.sp(); b.atom(int64(s.Offset))
	case *influxql.ShowFieldKeysStatement:
		t(28); b.sp(); b.text(s.Database); b.sp(); b.sources(s.Sources); b.sp(); b.sortFields(s.SortFields); b.sp(); b.atom(int64(s.Limit)); b.sp(); b.atom(int64(s.Offset))
	case *influxql.ShowGrantsForUserStatement:
		t(29); b.sp(); b.text(s.Name)
	case *influxql.ShowMeasurementCardinalityStatement:
		t(30); b.sp(); b.boolean(s.Exact); b.sp(); b.text(s.Database); b.sp(); b.sources(s.Sources); b.sp(); b.optExpr(s.Condition); b.sp()
		b.dims(s.Dimensions); b.sp(); b.atom(int64(s.Limit)); b.sp(); b.atom(int64(s.Offset))
	case *influxql.ShowMeasurementsStatement:
		t(31); b.sp(); b.text(s.Database); b.sp(); b.text(s.RetentionPolicy); b.sp(); b.boolean(s.WildcardDatabase); b.sp(); b.boolean(s.WildcardRetentionPolicy); b.sp()
		if s.Source == nil {
			b.WriteString("(0)")
		} else {
			b.WriteString("(1 "); b.source(s.Source); b.close()
		}
		b.sp(); b.optExpr(s.Condition); b.sp(); b.sortFields(s.SortFields); b.sp(); b.atom(int64(s.Limit)); b.sp(); b.atom(int64(s.Offset))
	case *influxql.ShowQueriesStatement:
		t(32)
	case *influxql.ShowRetentionPoliciesStatement:
		t(33); b.sp(); b.text(s.Database)
	case *influxql.ShowSeriesStatement:
		t(34); b.sp(); b.text(s.Database); b.sp(); b.sources(s.Sources); b.sp(); b.optExpr(s.Condition); b.sp(); b.sortFields(s.SortFields); b.sp()
		b.atom(int64(s.Limit)); b.sp(); b.atom(int64(s.Offset))
	case *influxql.ShowSeriesCardinalityStatement:
		t(35); b.sp(); b.text(s.Database); b.sp(); b.boolean(s.Exact); b.sp(); b.sources(s.Sources); b.sp(); b.optExpr(s.Condition); b.sp()
		b.dims(s.Dimensions); b.sp(); b.atom(int64(s.Limit)); b.sp(); b.atom(int64(s.Offset))
	case *influxql.ShowShardGroupsStatement:
		t(36)
	case *influxql.ShowShardsStatement:
		t(37)
	case *influxql.ShowStatsStatement:
		t(38); b.sp(); b.text(s.Module)
	case *influxql.ShowSubscriptionsStatement:
		t(39)
	case *influxql.ShowTagKeyCardinalityStatement:
		t(40); b.sp(); b.text(s.Database); b.sp(); b.boolean(s.Exact); b.sp(); b.sources(s.Sources); b.sp(); b.optExpr(s.Condition); b.sp()
		b.dims(s.Dimensions); b.sp(); b.atom(int64(s.Limit)); b.sp(); b.atom(int64(s.Offset))
	case *influxql.ShowTagKeysStatement:
		t(41); b.sp(); b.text(s.Database); b.sp(); b.sources(s.Sources); b.sp(); b.atom(int64(s.TagKeyOp)); b.sp(); b.optExpr(s.TagKeyExpr); b.sp()
		b.optExpr(s.Condition); b.sp(); b.sortFields(s.SortFields); b.sp(); b.atom(int64(s.Limit)); b.sp(); b.atom(int64(s.Offset)); b.sp()
		b.atom(int64(s.SLimit)); b.sp(); b.atom(int64(s.SOffset))
	case *influxql.ShowTagValuesStatement:
		t(42); b.sp(); b.text(s.Database); b.sp(); b.sources(s.Sources); b.sp(); b.atom(int64(s.Op)); b.sp(); b.optLit(s.TagKeyExpr); b.sp()
		b.optExpr(s.Condition); b.sp(); b.sortFields(s.SortFields); b.sp(); b.atom(int64(s.Limit)); b.sp(); b.atom(int64(s.Offset))
	case *influxql.ShowTagValuesCardinalityStatement:
		t(43); b.sp(); b.text(s.Database); b.sp(); b.boolean(s.Exact); b.sp(); b.sources(s.Sources); b.sp(); b.atom(int64(s.Op)); b.sp(); b.optLit(s.TagKeyExpr); b.sp()
		b.optExpr(s.Condition); b.sp(); b.dims(s.Dimensions); b.sp(); b.atom(int64(s.Limit)); b.sp(); b.atom(int64(s.Offset))
	case *influxql.ShowUsersStatement:
		t(44)
	default:
		t(-5)
	}
	b.close()
}

func (b *sb) optLit(l influxql.Literal) {
	if l == nil {
		b.WriteString("(0)")
		return
	}
	b.optExpr(l.(influxql.Expr))
}

func stmtSexp(s influxql.Statement) string {
	var b sb
	b.stmt(s)
	return b.String()
}
