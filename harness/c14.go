package main

import (
	"fmt"
	"regexp"
	"strings"
	"time"
	"unsafe"

	"github.com/influxdata/influxql"
)

// C14: clones are faithful and independent; derived operations leave the receiver alone.

type ptrWalk struct {
	nodes []unsafe.Pointer // node structs and slice backing arrays, preorder (nil for an empty slice)
	rxs   []unsafe.Pointer // *regexp.Regexp
}

func arr[T any](s []T) unsafe.Pointer {
	if len(s) == 0 {
		return nil
	}
	return unsafe.Pointer(&s[0])
}

func (w *ptrWalk) expr(e influxql.Expr) {
	switch e := e.(type) {
	case *influxql.BinaryExpr:
		w.nodes = append(w.nodes, unsafe.Pointer(e))
		w.expr(e.LHS)
		w.expr(e.RHS)
	case *influxql.Call:
		w.nodes = append(w.nodes, unsafe.Pointer(e), arr(e.Args))
		for _, a := range e.Args {
			w.expr(a)
		}
	case *influxql.ParenExpr:
		w.nodes = append(w.nodes, unsafe.Pointer(e))
		w.expr(e.Expr)
	case *influxql.RegexLiteral:
		w.nodes = append(w.nodes, unsafe.Pointer(e))
		w.rxs = append(w.rxs, unsafe.Pointer(e.Val))
	case *influxql.ListLiteral:
		w.nodes = append(w.nodes, unsafe.Pointer(e), arr(e.Vals))
	case *influxql.BooleanLiteral:
		w.nodes = append(w.nodes, unsafe.Pointer(e))
	case *influxql.BoundParameter:
		w.nodes = append(w.nodes, unsafe.Pointer(e))
	case *influxql.Distinct:
		w.nodes = append(w.nodes, unsafe.Pointer(e))
	case *influxql.DurationLiteral:
		w.nodes = append(w.nodes, unsafe.Pointer(e))
	case *influxql.IntegerLiteral:
		w.nodes = append(w.nodes, unsafe.Pointer(e))
	case *influxql.UnsignedLiteral:
		w.nodes = append(w.nodes, unsafe.Pointer(e))
	case *influxql.NilLiteral:
		w.nodes = append(w.nodes, unsafe.Pointer(e))
	case *influxql.NumberLiteral:
		w.nodes = append(w.nodes, unsafe.Pointer(e))
	case *influxql.StringLiteral:
		w.nodes = append(w.nodes, unsafe.Pointer(e))
	case *influxql.TimeLiteral:
		w.nodes = append(w.nodes, unsafe.Pointer(e))
	case *influxql.VarRef:
		w.nodes = append(w.nodes, unsafe.Pointer(e))
	case *influxql.Wildcard:
		w.nodes = append(w.nodes, unsafe.Pointer(e))
	}
}

func (w *ptrWalk) measurement(m *influxql.Measurement) {
	w.nodes = append(w.nodes, unsafe.Pointer(m))
	if m.Regex != nil {
		w.nodes = append(w.nodes, unsafe.Pointer(m.Regex))
		w.rxs = append(w.rxs, unsafe.Pointer(m.Regex.Val))
	}
}

// selectStmt: same preorder as the model's locs_lselect / rx_lselect
func (w *ptrWalk) selectStmt(q *influxql.SelectStatement) {
	w.nodes = append(w.nodes, unsafe.Pointer(q), arr(q.Fields), arr(q.Dimensions), arr(q.Sources), arr(q.SortFields))
	var rxFields, rxTarget, rxDims, rxSources, rxCond []unsafe.Pointer
	sub := func(f func(w *ptrWalk)) ([]unsafe.Pointer, []unsafe.Pointer) {
		x := &ptrWalk{}
		f(x)
		return x.nodes, x.rxs
	}
	for _, f := range q.Fields {
		n, r := sub(func(x *ptrWalk) { x.nodes = append(x.nodes, unsafe.Pointer(f)); x.expr(f.Expr) })
		w.nodes = append(w.nodes, n...)
		rxFields = append(rxFields, r...)
	}
	if q.Target != nil {
		n, r := sub(func(x *ptrWalk) { x.nodes = append(x.nodes, unsafe.Pointer(q.Target)); x.measurement(q.Target.Measurement) })
		w.nodes = append(w.nodes, n...)
		rxTarget = r
	}
	for _, d := range q.Dimensions {
		n, r := sub(func(x *ptrWalk) { x.nodes = append(x.nodes, unsafe.Pointer(d)); x.expr(d.Expr) })
		w.nodes = append(w.nodes, n...)
		rxDims = append(rxDims, r...)
	}
	for _, s := range q.Sources {
		n, r := sub(func(x *ptrWalk) {
			switch s := s.(type) {
			case *influxql.Measurement:
				x.measurement(s)
			case *influxql.SubQuery:
				x.nodes = append(x.nodes, unsafe.Pointer(s))
				x.selectStmt(s.Statement)
			}
		})
		w.nodes = append(w.nodes, n...)
		rxSources = append(rxSources, r...)
	}
	if q.Condition != nil {
		n, r := sub(func(x *ptrWalk) { x.expr(q.Condition) })
		w.nodes = append(w.nodes, n...)
		rxCond = r
	}
	for _, s := range q.SortFields {
		w.nodes = append(w.nodes, unsafe.Pointer(s))
	}
	w.rxs = append(w.rxs, rxFields...)
	w.rxs = append(w.rxs, rxTarget...)
	w.rxs = append(w.rxs, rxDims...)
	w.rxs = append(w.rxs, rxSources...)
	w.rxs = append(w.rxs, rxCond...)
}

func sharedFlags(orig, clone []unsafe.Pointer) (string, int) {
	set := map[unsafe.Pointer]bool{}
	for _, p := range orig {
		if p != nil {
			set[p] = true
		}
	}
	var b sb
	n := 0
	b.open()
	for i, p := range clone {
		if i > 0 {
			b.sp()
		}
		sh := p != nil && set[p]
		if sh {
			n++
		}
		b.boolean(sh)
	}
	b.close()
	return b.String(), n
}

// in-place operations that must only touch the statement they are applied to
type renamer struct{}

func (renamer) Rewrite(n influxql.Node) influxql.Node {
	if v, ok := n.(*influxql.VarRef); ok {
		return &influxql.VarRef{Val: v.Val + "_renamed", Type: v.Type}
	}
	return n
}

var c14Mutations = []struct {
	name string
	f    func(q *influxql.SelectStatement, r *rng)
}{
	{"RewriteRegexConditions", func(q *influxql.SelectStatement, r *rng) { q.RewriteRegexConditions() }},
	{"RewriteDistinct", func(q *influxql.SelectStatement, r *rng) { q.RewriteDistinct() }},
	{"RewriteTimeFields", func(q *influxql.SelectStatement, r *rng) { q.RewriteTimeFields() }},
	{"SetTimeRange", func(q *influxql.SelectStatement, r *rng) {
		_ = q.SetTimeRange(time.Unix(int64(r.intn(1000)), 0).UTC(), time.Unix(int64(2000+r.intn(1000)), 0).UTC())
	}},
	{"Rewrite(renamer)", func(q *influxql.SelectStatement, r *rng) { influxql.Rewrite(renamer{}, q) }},
	{"mutate-leaves", func(q *influxql.SelectStatement, r *rng) {
		influxql.WalkFunc(q, func(n influxql.Node) {
			switch n := n.(type) {
			case *influxql.VarRef:
				n.Val += "!"
			case *influxql.IntegerLiteral:
				n.Val++
			case *influxql.StringLiteral:
				n.Val += "!"
			case *influxql.Call:
				n.Name += "!"
				if len(n.Args) > 0 {
					n.Args[0] = &influxql.IntegerLiteral{Val: 424242}
				}
			case *influxql.BinaryExpr:
				n.LHS, n.RHS = n.RHS, n.LHS
			case *influxql.Measurement:
				n.Name += "!"
				n.Database += "!"
				n.IsTarget = !n.IsTarget
			case *influxql.Field:
				n.Alias += "!"
			case *influxql.SortField:
				n.Ascending = !n.Ascending
			case *influxql.ParenExpr:
				n.Expr = &influxql.BooleanLiteral{Val: true}
			}
		})
	}},
	{"mutate-slices", func(q *influxql.SelectStatement, r *rng) {
		if len(q.Fields) > 0 {
			q.Fields[0] = &influxql.Field{Expr: &influxql.VarRef{Val: "injected"}}
		}
		if len(q.Dimensions) > 0 {
			q.Dimensions[0] = &influxql.Dimension{Expr: &influxql.VarRef{Val: "injected"}}
		}
		if len(q.Sources) > 0 {
			q.Sources[0] = &influxql.Measurement{Name: "injected"}
		}
		if len(q.SortFields) > 0 {
			q.SortFields[0] = &influxql.SortField{Name: "injected"}
		}
		q.Limit, q.Offset, q.SLimit, q.SOffset = 999, 998, 997, 996
		q.Condition = &influxql.BooleanLiteral{Val: false}
		if q.Target != nil {
			q.Target.Measurement = &influxql.Measurement{Name: "injected"}
		}
	}},
	{"mutate-subqueries", func(q *influxql.SelectStatement, r *rng) {
		for _, s := range q.Sources {
			if sq, ok := s.(*influxql.SubQuery); ok {
				sq.Statement.Limit = 12345
				if len(sq.Statement.Fields) > 0 {
					sq.Statement.Fields[0].Alias = "sub!"
				}
				sq.Statement.RewriteRegexConditions()
			}
		}
	}},
}

type c14Mapper struct{}

func (c14Mapper) FieldDimensions(m *influxql.Measurement) (map[string]influxql.DataType, map[string]struct{}, error) {
	return map[string]influxql.DataType{"value": influxql.Float, "n": influxql.Integer, "s": influxql.String}, map[string]struct{}{"host": {}, "region": {}}, nil
}
func (c14Mapper) MapType(m *influxql.Measurement, field string) influxql.DataType {
	switch field {
	case "value":
		return influxql.Float
	case "n":
		return influxql.Integer
	case "host", "region":
		return influxql.Tag
	}
	return influxql.Unknown
}

// derived operations: must leave the receiver exactly as it was
var c14Derived = []struct {
	name string
	f    func(q *influxql.SelectStatement)
}{
	{"String", func(q *influxql.SelectStatement) { _ = q.String() }},
	{"Clone", func(q *influxql.SelectStatement) { _ = q.Clone() }},
	{"ColumnNames", func(q *influxql.SelectStatement) { _ = q.ColumnNames() }},
	{"RequiredPrivileges", func(q *influxql.SelectStatement) { _, _ = q.RequiredPrivileges() }},
	{"RewriteFields", func(q *influxql.SelectStatement) { _, _ = q.RewriteFields(c14Mapper{}) }},
	{"Reduce", func(q *influxql.SelectStatement) { _ = q.Reduce(&influxql.NowValuer{Now: time.Unix(1e9, 0).UTC()}) }},
	{"Reduce(condition)", func(q *influxql.SelectStatement) {
		if q.Condition != nil {
			_ = influxql.Reduce(q.Condition, influxql.MapValuer{"host": "a", "value": int64(3)})
		}
	}},
	{"Eval(condition)", func(q *influxql.SelectStatement) {
		if q.Condition != nil {
			_ = influxql.Eval(q.Condition, map[string]interface{}{"host": "a", "value": int64(3)})
		}
	}},
	{"ConditionExpr", func(q *influxql.SelectStatement) {
		if q.Condition != nil {
			_, _, _ = influxql.ConditionExpr(q.Condition, &influxql.NowValuer{Now: time.Unix(1e9, 0).UTC()})
		}
	}},
	{"RewriteTimeFields(on a clone)", func(q *influxql.SelectStatement) { q.Clone().RewriteTimeFields() }},
	{"RewriteDistinct/RewriteRegexConditions(on a clone)", func(q *influxql.SelectStatement) {
		c := q.Clone()
		c.RewriteDistinct()
		c.RewriteRegexConditions()
	}},
	{"Names", func(q *influxql.SelectStatement) {
		_ = q.Fields.Names()
		_ = q.Fields.AliasNames()
		_ = q.HasWildcard()
		_, _ = q.FieldExprByName("value")
		_, _ = q.GroupByOffset()
	}},
	{"Walk", func(q *influxql.SelectStatement) { influxql.WalkFunc(q, func(influxql.Node) {}) }},
	// type evaluation of every field, condition operand and dimension against the statement's own sources (subqueries
	// included): a question about the statement, not a rewrite of it
	{"EvalType", func(q *influxql.SelectStatement) {
		tv := influxql.TypeValuerEval{TypeMapper: c14Mapper{}, Sources: q.Sources}
		for _, f := range q.Fields {
			_ = influxql.EvalType(f.Expr, q.Sources, c14Mapper{})
			_, _ = tv.EvalType(f.Expr)
		}
		for _, d := range q.Dimensions {
			_ = influxql.EvalType(d.Expr, q.Sources, c14Mapper{})
		}
		if q.Condition != nil {
			influxql.WalkFunc(q.Condition, func(n influxql.Node) {
				if e, ok := n.(influxql.Expr); ok {
					_ = influxql.EvalType(e, q.Sources, c14Mapper{})
				}
			})
		}
		_, _, _ = influxql.FieldDimensions(q.Sources, c14Mapper{})
	}},
}

// c14History: a clone is independent of its original whatever was done to the original BEFORE it was cloned (a time
// range set, an interval asked, a reduction), and two clones of one statement are independent of each other
func c14History(o *out, q0 *influxql.SelectStatement, text string) {
	w := func(i int64) (time.Time, time.Time) { return time.Unix(i*3600, 0).UTC(), time.Unix(i*3600+1800, 0).UTC() }
	flip := func(s *influxql.SelectStatement) {
		influxql.WalkFunc(s, func(n influxql.Node) {
			switch x := n.(type) {
			case *influxql.BooleanLiteral:
				x.Val = !x.Val
			case *influxql.StringLiteral:
				x.Val += "!"
			case *influxql.IntegerLiteral:
				x.Val++
			}
		})
		if s.Target != nil && s.Target.Measurement != nil {
			s.Target.Measurement.Name += "!"
			s.Target.Measurement.Database += "!"
		}
		for _, src := range s.Sources {
			if m, ok := src.(*influxql.Measurement); ok {
				m.RetentionPolicy += "!"
			}
		}
	}
	rp := map[string]interface{}{"op": "clone_history", "text": text}
	for _, prepare := range []func(s *influxql.SelectStatement) *influxql.SelectStatement{
		func(s *influxql.SelectStatement) *influxql.SelectStatement { a, b := w(1); _ = s.SetTimeRange(a, b); return s },
		func(s *influxql.SelectStatement) *influxql.SelectStatement { a, b := w(1); _ = s.SetTimeRange(a, b); a, b = w(2); _ = s.SetTimeRange(a, b); return s },
		func(s *influxql.SelectStatement) *influxql.SelectStatement { _, _ = s.GroupByInterval(); _ = s.ColumnNames(); _, _ = s.RequiredPrivileges(); return s },
		func(s *influxql.SelectStatement) *influxql.SelectStatement { return s.Reduce(&influxql.NowValuer{Now: time.Unix(1e9, 0).UTC()}) },
		func(s *influxql.SelectStatement) *influxql.SelectStatement { return s.Clone().Clone() },
	} {
		var q *influxql.SelectStatement
		if pn := safely(func() { q = prepare(q0.Clone()) }); pn != nil || q == nil {
			continue
		}
		var c1, c2 *influxql.SelectStatement
		if pn := safely(func() { c1, c2 = q.Clone(), q.Clone() }); pn != nil {
			continue
		}
		before, before2 := selectSexp(q), selectSexp(c2)
		o.count("clone-history")
		o.checked()
		pn := safely(func() {
			a, b := w(7)
			_ = c1.SetTimeRange(a, b)
			c1.RewriteRegexConditions()
			flip(c1)
			a, b = w(9)
			_ = c1.SetTimeRange(a, b)
		})
		if pn == nil && (selectSexp(q) != before || selectSexp(c2) != before2) {
			o.fail("", fmt.Sprintf("%q: after a time range was set on one clone and its literals were changed, the original reads %s (was %s) and a second clone %s", text, q.String(), before, c2.String()), rp)
			return
		}
		// and the other way round: changing the original leaves the clones alone
		after1 := selectSexp(c1)
		pn = safely(func() { a, b := w(11); _ = q.SetTimeRange(a, b); flip(q) })
		if pn == nil && (selectSexp(c1) != after1 || selectSexp(c2) != before2) {
			o.fail("", fmt.Sprintf("%q: after the original was changed, its clones changed too", text), rp)
			return
		}
	}
}

func safely(f func()) (pn interface{}) {
	defer func() { pn = recover() }()
	f()
	return nil
}

func c14One(o *out, text string, r *rng, tag string) {
	st, err := influxql.ParseStatement(text)
	if err != nil {
		return
	}
	q, ok := st.(*influxql.SelectStatement)
	if !ok {
		return
	}
	o.count(tag)
	rp := map[string]interface{}{"op": "clone", "text": text}
	before := selectSexp(q)
	var clone *influxql.SelectStatement
	if pn := safely(func() { clone = q.Clone() }); pn != nil {
		o.checked()
		o.fail("", fmt.Sprintf("Clone of %q panics: %v", text, pn), rp)
		return
	}
	// faithful
	o.checked()
	if got := selectSexp(clone); got != before {
		o.fail("", fmt.Sprintf("Clone of %q differs from the original: %s", text, clone.String()), rp)
	}
	// sharing pattern, node by node, vs the model
	wo, wc := &ptrWalk{}, &ptrWalk{}
	wo.selectStmt(q)
	wc.selectStmt(clone)
	nf, nshared := sharedFlags(wo.nodes, wc.nodes)
	rf, _ := sharedFlags(wo.rxs, wc.rxs)
	o.addCaseVM("(19 "+before+")", "("+selectSexp(clone)+" "+nf+" "+rf+")", "Clone of "+text, asciiNoFloat(text))
	o.checked()
	if nshared > 0 {
		o.fail("", fmt.Sprintf("Clone of %q shares %d mutable nodes or slices with the original", text, nshared), rp)
	}
	// histories: in-place changes on one side are invisible to the other
	steps := 1 + r.intn(4)
	var hist []string
	for i := 0; i < steps; i++ {
		m := pick(r, c14Mutations)
		onClone := r.chance(2, 3)
		hist = append(hist, fmt.Sprintf("%s(%v)", m.name, map[bool]string{true: "clone", false: "original"}[onClone]))
		target, other := clone, q
		if !onClone {
			target, other = q, clone
		}
		snap := selectSexp(other)
		pn := safely(func() { m.f(target, r) })
		o.checked()
		if pn != nil {
			break // totality of the operations is C13's business
		}
		if selectSexp(other) != snap {
			o.fail("", fmt.Sprintf("%q: after Clone, the history %s changed the other side", text, strings.Join(hist, ", ")), map[string]interface{}{"op": "clone", "text": text, "history": strings.Join(hist, ", ")})
			break
		}
	}
	// derived operations leave the receiver alone
	st2, _ := influxql.ParseStatement(text)
	q2 := st2.(*influxql.SelectStatement)
	snap := selectSexp(q2)
	for _, d := range c14Derived {
		pn := safely(func() { d.f(q2) })
		o.checked()
		if pn == nil && selectSexp(q2) != snap {
			o.fail("", fmt.Sprintf("%s modified the statement it was called on: %q became %s", d.name, text, q2.String()), map[string]interface{}{"op": "derived", "text": text, "operation": d.name})
			q2 = st2.(*influxql.SelectStatement)
			break
		}
	}
	if st3, err := influxql.ParseStatement(text); err == nil {
		c14History(o, st3.(*influxql.SelectStatement), text)
	}
}

func c14Expr(o *out, text string) {
	e, err := influxql.ParseExpr(text)
	if err != nil {
		return
	}
	o.count("expr")
	before := exprSexp(e)
	var c influxql.Expr
	rp := map[string]interface{}{"op": "clone_expr", "text": text}
	o.checked()
	if pn := safely(func() { c = influxql.CloneExpr(e) }); pn != nil {
		o.fail("", fmt.Sprintf("CloneExpr(%s) panics: %v", text, pn), rp)
		return
	}
	if exprSexp(c) != before {
		o.fail("", fmt.Sprintf("CloneExpr(%s) = %s", text, c.String()), rp)
	}
	wo, wc := &ptrWalk{}, &ptrWalk{}
	wo.expr(e)
	wc.expr(c)
	nf, nshared := sharedFlags(wo.nodes, wc.nodes)
	rf, _ := sharedFlags(wo.rxs, wc.rxs)
	o.addCaseVM("(20 "+before+")", "("+exprSexp(c)+" "+nf+" "+rf+")", "CloneExpr "+text, asciiNoFloat(text))
	if nshared > 0 {
		o.fail("", fmt.Sprintf("CloneExpr(%s) shares %d mutable nodes with the original", text, nshared), rp)
	}
}

func propC14(o *out, r *rng, thorough bool) {
	n := 700
	if thorough {
		n = 60000
	}
	for _, s := range loadCorpus("statements.json") {
		c14One(o, s, r, "corpus")
	}
	for i := 0; i < n; i++ {
		kind := pick(r, []string{"select", "select", "select", "createcq"})
		text, _, _ := genStatement(r, kind, true)
		if kind == "createcq" {
			if i := strings.Index(text, "BEGIN "); i >= 0 {
				text = strings.TrimSuffix(text[i+6:], " END")
			}
		}
		c14One(o, text, r, "generated")
		if i%4 == 0 {
			c14One(o, genOddStatement(r, "select"), r, "odd")
		}
		o.nontrivial(text)
		if i < 5 {
			o.sample(text)
		}
	}
	for _, w := range []string{"SELECT value FROM (SELECT value FROM cpu WHERE host = 'a')", "SELECT value, host, n FROM (SELECT value, host, n FROM (SELECT value, host, n FROM cpu)) WHERE value > n GROUP BY host",
		"SELECT mean(value) FROM (SELECT value + n AS value FROM cpu), (SELECT n FROM mem)", "SELECT value INTO copy FROM db0.rp0.cpu", "SELECT value INTO \"\".rp1.copy FROM db0.rp0.cpu, db1..mem",
		"SELECT a INTO db.rp.t FROM m", "SELECT a INTO db.rp.:MEASUREMENT FROM /x/", "SELECT mean(a) FROM (SELECT b FROM /re/ WHERE x =~ /y/) GROUP BY time(1m), /h/ fill(3.5) ORDER BY time DESC tz('UTC')",
		"SELECT mean(v) FROM m GROUP BY time(5m, now())", "SELECT mean(v) FROM m WHERE time > now() - 1h GROUP BY time(5m, now() - 1m), host", "SELECT 1 + 2, v + (2 * 3) AS x FROM m GROUP BY time(1m + 1m)",
		"SELECT v FROM (SELECT v FROM m WHERE time > now() GROUP BY time(1m, now())) WHERE time < now() + 1h", "SELECT DISTINCT a FROM m", "SELECT count(DISTINCT a), top(b, c, 3) FROM m WHERE time > now() - 1h AND (h = 'x' OR h =~ /^a$/)",
		// name queries that build scratch field lists or look through parentheses
		"SELECT top(value, host, 2), other FROM cpu", "SELECT bottom(v, a, b, 3), x, y, z FROM cpu", "SELECT x, top(v, host, region, 1), y AS yy, z FROM m", "SELECT (a + b) FROM cpu", "SELECT (a), ((b)), (c + d) AS e FROM m",
		"SELECT (value) FROM m WHERE (host) = 'a'", "SELECT top(v, t1, 2), top(v, t2, 2), w FROM m", "SELECT \"usage%\", \"usage%\" FROM m", "SELECT host::tag, v::float FROM m WHERE host::tag = 'a' AND v::float > 5",
		// time on the right of every comparison, bounds inside groups with other predicates, calls without arguments
		"SELECT v FROM m WHERE 10 < time AND 20 >= time", "SELECT v FROM m WHERE '2000-01-01T00:00:00Z' <= time AND now() > time", "SELECT v FROM m WHERE host = 'a' AND (region = 'b' AND time >= 100 AND 200 > time)",
		"SELECT v FROM m WHERE 5 = time", "SELECT v FROM m WHERE time > now() - 1h AND now() + 1m > time GROUP BY time(5m, now())", "SELECT now(), f() FROM m WHERE g() = 1",
		"SELECT time, v, time AS t2 FROM m", "SELECT v, time FROM m"} {
		c14One(o, w, r, "witness")
	}
	for i := 0; i < n; i++ {
		g := &gen{r: r, plain: true}
		g.expr(3, true)
		c14Expr(o, g.join())
	}
	_ = regexp.MustCompile
}

func init() {
	props["C14"] = propC14
	replayers["clone"] = func(o *out, rp map[string]interface{}) {
		for seed := uint64(1); seed < 40; seed++ {
			c14One(o, rpStr(rp, "text"), newRng(seed), "replay")
		}
	}
	replayers["derived"] = replayers["clone"]
	replayers["clone_expr"] = func(o *out, rp map[string]interface{}) { c14Expr(o, rpStr(rp, "text")) }
}
