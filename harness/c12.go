package main

import (
	"encoding/json"
	"errors"
	"fmt"
	"regexp"
	"sort"
	"strings"

	"github.com/influxdata/influxql"
)

// C12: wildcard expansion yields exactly the schema's columns, deterministically.

type c12Meas struct {
	Fields map[string]string `json:"fields"` // name -> type name
	Tags   []string          `json:"tags"`
	Err    bool              `json:"err"`
}
type c12Schema map[string]*c12Meas

var c12TypeNames = map[string]influxql.DataType{"float": influxql.Float, "integer": influxql.Integer, "unsigned": influxql.Unsigned, "string": influxql.String,
	"boolean": influxql.Boolean, "time": influxql.Time, "duration": influxql.Duration, "tag": influxql.Tag, "field": influxql.AnyField, "unknown": influxql.Unknown}

// the FieldMapper double: fresh Go maps on every call, so the iteration order is randomised per call
type c12Mapper struct{ sch c12Schema }

func (m *c12Mapper) FieldDimensions(mm *influxql.Measurement) (map[string]influxql.DataType, map[string]struct{}, error) {
	ms := m.sch[mm.Name]
	if ms == nil {
		return nil, nil, nil
	}
	if ms.Err {
		return nil, nil, errors.New("schema unavailable")
	}
	f := map[string]influxql.DataType{}
	for k, t := range ms.Fields {
		f[k] = c12TypeNames[t]
	}
	d := map[string]struct{}{}
	for _, k := range ms.Tags {
		d[k] = struct{}{}
	}
	return f, d, nil
}
func (m *c12Mapper) MapType(mm *influxql.Measurement, field string) influxql.DataType {
	ms := m.sch[mm.Name]
	if ms == nil {
		return influxql.Unknown
	}
	if t, ok := ms.Fields[field]; ok {
		return c12TypeNames[t]
	}
	for _, k := range ms.Tags {
		if k == field {
			return influxql.Tag
		}
	}
	return influxql.Unknown
}

func (s c12Schema) sexp() string {
	names := make([]string, 0, len(s))
	for k := range s {
		names = append(names, k)
	}
	sort.Strings(names)
	var b sb
	b.open()
	for i, n := range names {
		if i > 0 {
			b.sp()
		}
		ms := s[n]
		b.open(); b.text(n); b.sp(); b.open()
		fs := make([]string, 0, len(ms.Fields))
		for k := range ms.Fields {
			fs = append(fs, k)
		}
		sort.Strings(fs)
		for j, k := range fs {
			if j > 0 {
				b.sp()
			}
			b.open(); b.text(k); b.sp(); b.atom(int64(c12TypeNames[ms.Fields[k]])); b.close()
		}
		b.close(); b.sp(); b.texts(ms.Tags); b.sp(); b.boolean(ms.Err); b.close()
	}
	b.close()
	return b.String()
}

func c12Names(n influxql.Node, into map[string]bool) {
	influxql.WalkFunc(n, func(n influxql.Node) {
		switch n := n.(type) {
		case *influxql.VarRef:
			into[n.Val] = true
		case *influxql.Field:
			into[n.Name()] = true
		case *influxql.Call:
			into[n.Name] = true
		}
	})
}

// c12CachingMapper: builds its maps once and returns the same map objects on every call
type c12CachingMapper struct {
	c12Mapper
	f map[string]map[string]influxql.DataType
	d map[string]map[string]struct{}
}

func newC12CachingMapper(sch c12Schema) *c12CachingMapper {
	m := &c12CachingMapper{c12Mapper: c12Mapper{sch}, f: map[string]map[string]influxql.DataType{}, d: map[string]map[string]struct{}{}}
	for name := range sch {
		f, d, err := m.c12Mapper.FieldDimensions(&influxql.Measurement{Name: name})
		if err == nil {
			m.f[name], m.d[name] = f, d
		}
	}
	return m
}
func (m *c12CachingMapper) FieldDimensions(mm *influxql.Measurement) (map[string]influxql.DataType, map[string]struct{}, error) {
	if f, ok := m.f[mm.Name]; ok {
		return f, m.d[mm.Name], nil
	}
	return m.c12Mapper.FieldDimensions(mm)
}
func (m *c12CachingMapper) snapshot() string {
	var names []string
	for n := range m.f {
		names = append(names, n)
	}
	sort.Strings(names)
	var b strings.Builder
	for _, n := range names {
		var fs, ds []string
		for k, t := range m.f[n] {
			fs = append(fs, k+":"+t.String())
		}
		for k := range m.d[n] {
			ds = append(ds, k)
		}
		sort.Strings(fs)
		sort.Strings(ds)
		fmt.Fprintf(&b, "%s{%s|%s}", n, strings.Join(fs, ","), strings.Join(ds, ","))
	}
	return b.String()
}

func c12Rewrite(q *influxql.SelectStatement, sch c12Schema) (res *influxql.SelectStatement, err error, pn interface{}) {
	defer func() { pn = recover() }()
	res, err = q.RewriteFields(&c12Mapper{sch})
	return
}

// ---- the independent expansion: what the property's text says the result is, for statements whose sources are all measurements ----
var c12Rank = map[influxql.DataType]int{influxql.Float: 10, influxql.Integer: 20, influxql.Unsigned: 25, influxql.String: 30, influxql.Boolean: 40,
	influxql.Time: 50, influxql.Duration: 60, influxql.Tag: 70, influxql.AnyField: 80, influxql.Unknown: 1000}

type c12Col struct {
	name string
	typ  influxql.DataType
}

func c12Spec(q *influxql.SelectStatement, sch c12Schema, propertyText bool) (fields []string, dims []string, isErr bool, applicable bool) {
	var meas []*c12Meas
	for _, s := range q.Sources {
		m, ok := s.(*influxql.Measurement)
		if !ok {
			return nil, nil, false, false
		}
		if ms := sch[m.Name]; ms != nil {
			meas = append(meas, ms)
		}
	}
	best := func(name string, withTags bool) influxql.DataType {
		t := influxql.Unknown
		for _, ms := range meas {
			c := influxql.Unknown
			if ft, ok := ms.Fields[name]; ok {
				c = c12TypeNames[ft]
			} else if withTags {
				for _, k := range ms.Tags {
					if k == name {
						c = influxql.Tag
					}
				}
			}
			if c12Rank[c] < c12Rank[t] {
				t = c
			}
		}
		return t
	}
	var retype func(e influxql.Expr) influxql.Expr
	retype = func(e influxql.Expr) influxql.Expr {
		switch e := e.(type) {
		case *influxql.VarRef:
			if e.Type != influxql.Unknown && e.Type != influxql.AnyField {
				return e
			}
			t := best(e.Val, true)
			if t == influxql.Tag && e.Type == influxql.AnyField {
				return e
			}
			return &influxql.VarRef{Val: e.Val, Type: t}
		case *influxql.BinaryExpr:
			return &influxql.BinaryExpr{Op: e.Op, LHS: retype(e.LHS), RHS: retype(e.RHS)}
		case *influxql.ParenExpr:
			return &influxql.ParenExpr{Expr: retype(e.Expr)}
		case *influxql.Call:
			c := &influxql.Call{Name: e.Name}
			for _, a := range e.Args {
				c.Args = append(c.Args, retype(a))
			}
			return c
		}
		return e
	}
	hasFW, hasDW, starDim := false, false, false
	for _, f := range q.Fields {
		influxql.WalkFunc(f.Expr, func(n influxql.Node) {
			switch n.(type) {
			case *influxql.Wildcard, *influxql.RegexLiteral:
				hasFW = true
			}
		})
	}
	var dimRes []*regexp.Regexp
	grouped := map[string]bool{}
	for _, d := range q.Dimensions {
		switch e := d.Expr.(type) {
		case *influxql.Wildcard:
			hasDW, starDim = true, true
		case *influxql.RegexLiteral:
			hasDW = true
			dimRes = append(dimRes, e.Val)
		case *influxql.VarRef:
			grouped[e.Val] = true
		}
	}
	fieldStr := func(e influxql.Expr, alias string) string { return (&influxql.Field{Expr: e, Alias: alias}).String() }
	if !hasFW && !hasDW {
		for _, f := range q.Fields {
			fields = append(fields, fieldStr(retype(f.Expr), f.Alias))
		}
		for _, d := range q.Dimensions {
			dims = append(dims, d.String())
		}
		return fields, dims, false, true
	}
	for _, s := range q.Sources {
		if ms := sch[s.(*influxql.Measurement).Name]; ms != nil && ms.Err {
			return nil, nil, true, true
		}
	}
	fieldNames, tagNames := map[string]bool{}, map[string]bool{}
	for _, ms := range meas {
		for k := range ms.Fields {
			fieldNames[k] = true
		}
		for _, k := range ms.Tags {
			tagNames[k] = true
		}
	}
	var tags []string
	for k := range tagNames {
		tags = append(tags, k)
	}
	sort.Strings(tags)
	var cols []c12Col
	if len(fieldNames) > 0 {
		for k := range fieldNames {
			cols = append(cols, c12Col{k, best(k, false)})
		}
		for _, k := range tags {
			isGrouped := grouped[k] || hasDW // the code: a GROUP BY wildcard of any kind keeps every tag out of the fields
			if propertyText {            // the property: out of the fields when the statement groups by them
				isGrouped = grouped[k] || starDim
				for _, re := range dimRes {
					isGrouped = isGrouped || re.MatchString(k)
				}
			}
			if !isGrouped {
				cols = append(cols, c12Col{k, influxql.Tag})
			}
		}
		sort.Slice(cols, func(i, j int) bool {
			if cols[i].name != cols[j].name {
				return cols[i].name < cols[j].name
			}
			return cols[i].typ < cols[j].typ
		})
	}
	if hasFW {
		for _, f := range q.Fields {
			fe := retype(f.Expr)
			switch e := fe.(type) {
			case *influxql.Wildcard:
				for _, c := range cols {
					if e.Type == influxql.FIELD && c.typ == influxql.Tag || e.Type == influxql.TAG && c.typ != influxql.Tag {
						continue
					}
					fields = append(fields, fieldStr(&influxql.VarRef{Val: c.name, Type: c.typ}, ""))
				}
			case *influxql.RegexLiteral:
				for _, c := range cols {
					if e.Val.MatchString(c.name) {
						fields = append(fields, fieldStr(&influxql.VarRef{Val: c.name, Type: c.typ}, ""))
					}
				}
			case *influxql.Call:
				// the innermost call along first arguments
				chain := []*influxql.Call{e}
				for len(chain[len(chain)-1].Args) > 0 {
					c, ok := chain[len(chain)-1].Args[0].(*influxql.Call)
					if !ok {
						break
					}
					chain = append(chain, c)
				}
				inner := chain[len(chain)-1]
				var re *regexp.Regexp
				expand := false
				if len(inner.Args) > 0 {
					switch a := inner.Args[0].(type) {
					case *influxql.Wildcard:
						if a.Type == influxql.TAG {
							return nil, nil, true, true
						}
						expand = true
					case *influxql.RegexLiteral:
						re, expand = a.Val, true
					}
				}
				if !expand {
					fields = append(fields, fieldStr(fe, f.Alias))
					continue
				}
				ok := map[influxql.DataType]bool{influxql.Float: true, influxql.Integer: true, influxql.Unsigned: true}
				switch inner.Name {
				case "count", "first", "last", "distinct", "elapsed", "mode", "sample":
					ok[influxql.String], ok[influxql.Boolean] = true, true
				case "min", "max":
					ok[influxql.Boolean] = true
				case "holt_winters", "holt_winters_with_fit":
					delete(ok, influxql.Unsigned)
				}
				for _, c := range cols {
					if c.typ == influxql.Tag || !ok[c.typ] || re != nil && !re.MatchString(c.name) {
						continue
					}
					var build func(i int) influxql.Expr
					build = func(i int) influxql.Expr {
						n := &influxql.Call{Name: chain[i].Name, Args: append([]influxql.Expr{}, chain[i].Args...)}
						if i == len(chain)-1 {
							n.Args[0] = &influxql.VarRef{Val: c.name, Type: c.typ}
						} else {
							n.Args[0] = build(i + 1)
						}
						return n
					}
					fields = append(fields, fieldStr(build(0), f.Name()+"_"+c.name))
				}
			case *influxql.BinaryExpr:
				bad := false
				influxql.WalkFunc(e, func(n influxql.Node) {
					switch n.(type) {
					case *influxql.Wildcard, *influxql.RegexLiteral:
						bad = true
					}
				})
				if bad {
					return nil, nil, true, true
				}
				fields = append(fields, fieldStr(fe, f.Alias))
			default:
				fields = append(fields, fieldStr(fe, f.Alias))
			}
		}
	} else {
		for _, f := range q.Fields {
			fields = append(fields, fieldStr(retype(f.Expr), f.Alias))
		}
	}
	for _, d := range q.Dimensions {
		switch e := d.Expr.(type) {
		case *influxql.Wildcard:
			for _, k := range tags {
				dims = append(dims, (&influxql.VarRef{Val: k}).String())
			}
		case *influxql.RegexLiteral:
			for _, k := range tags {
				if e.Val.MatchString(k) {
					dims = append(dims, (&influxql.VarRef{Val: k}).String())
				}
			}
		default:
			dims = append(dims, d.String())
		}
	}
	return fields, dims, false, true
}

func c12StandardTypes(sch c12Schema) bool {
	for _, ms := range sch {
		for _, t := range ms.Fields {
			switch t {
			case "float", "integer", "unsigned", "string", "boolean":
			default:
				return false
			}
		}
	}
	return true
}

func c12One(o *out, text string, sch c12Schema, tag string) {
	st, err := influxql.ParseStatement(text)
	if err != nil {
		return
	}
	q, ok := st.(*influxql.SelectStatement)
	if !ok {
		return
	}
	o.count(tag)
	sj, _ := json.Marshal(sch)
	rp := map[string]interface{}{"op": "rewrite_fields", "text": text, "schema": string(sj)}
	before := selectSexp(q)
	res, rerr, pn := c12Rewrite(q, sch)
	o.checked()
	if pn != nil {
		o.fail("", fmt.Sprintf("RewriteFields on %q panics: %v", text, pn), rp)
		return
	}
	if selectSexp(q) != before {
		o.fail("", fmt.Sprintf("RewriteFields changed its receiver %q", text), rp)
	}
	resp := "(1)"
	if rerr == nil {
		resp = "(0 " + selectSexp(res) + ")"
	}
	// never on map iteration order: the mapper's maps and the merge maps are re-randomised on every run
	runs := 12
	for i := 0; i < runs; i++ {
		res2, err2, pn2 := c12Rewrite(q, sch)
		o.checked()
		r2 := "(1)"
		if pn2 != nil {
			r2 = "(2)"
		} else if err2 == nil {
			r2 = "(0 " + selectSexp(res2) + ")"
		}
		if r2 != resp {
			a, b := "error", "error"
			if rerr == nil {
				a = res.String()
			}
			if err2 == nil && pn2 == nil {
				b = res2.String()
			}
			o.fail("", fmt.Sprintf("RewriteFields on %q is not deterministic: %s versus %s", text, a, b), rp)
			break
		}
	}
	// a mapper that hands out the SAME maps on every call (a schema cache): the result is the same and the maps, which
	// belong to the mapper, come back unchanged - twice, so that a change made by the first call would show in the second
	{
		cm := newC12CachingMapper(sch)
		snap := cm.snapshot()
		for i := 0; i < 2; i++ {
			var res3 *influxql.SelectStatement
			var err3 error
			pn3 := safely(func() { res3, err3 = q.RewriteFields(cm) })
			o.checked()
			r3 := "(1)"
			if pn3 != nil {
				r3 = "(2)"
			} else if err3 == nil {
				r3 = "(0 " + selectSexp(res3) + ")"
			}
			if r3 != resp {
				o.fail("", fmt.Sprintf("RewriteFields on %q with a mapper that reuses its maps (call %d) differs from the result with fresh maps", text, i+1), rp)
				break
			}
			if now := cm.snapshot(); now != snap {
				o.fail("", fmt.Sprintf("RewriteFields on %q changed the maps the FieldMapper returned: %s -> %s", text, snap, now), rp)
				break
			}
		}
	}
	// correspondence with the model: regex matches on every name in play come from Go's engine
	names := map[string]bool{}
	for _, ms := range sch {
		for k := range ms.Fields {
			names[k] = true
		}
		for _, k := range ms.Tags {
			names[k] = true
		}
	}
	c12Names(q, names)
	if rerr == nil {
		c12Names(res, names)
	}
	pats := map[string]*regexp.Regexp{}
	influxql.WalkFunc(q, func(n influxql.Node) {
		if r, ok := n.(*influxql.RegexLiteral); ok && r.Val != nil {
			pats[r.Val.String()] = r.Val
		}
	})
	var pk, nk []string
	for p := range pats {
		pk = append(pk, p)
	}
	for n := range names {
		nk = append(nk, n)
	}
	sort.Strings(pk)
	sort.Strings(nk)
	var tb sb
	tb.open()
	first := true
	for _, p := range pk {
		for _, n := range nk {
			if pats[p].MatchString(n) {
				if !first {
					tb.sp()
				}
				first = false
				tb.open(); tb.atom(4); tb.sp(); tb.text(p); tb.sp(); tb.text(n); tb.sp(); tb.boolean(true); tb.close()
			}
		}
	}
	tb.close()
	hasBin := false
	influxql.WalkFunc(q, func(n influxql.Node) {
		if _, ok := n.(*influxql.BinaryExpr); ok {
			hasBin = true
		}
	})
	req := "(29 " + sch.sexp() + " " + before + ")"
	if tb.String() != "()" {
		req = "(0 " + tb.String() + " " + req + ")"
	}
	o.addCaseVM(req, resp, text+"  over "+string(sj), !hasBin && asciiNoFloat(text) && asciiNoFloat(string(sj)))

	// exactly the columns: a statement that selects one whole wildcard gets every column once, in order of name
	if rerr == nil && len(q.Fields) == 1 {
		if _, ok := q.Fields[0].Expr.(*influxql.Wildcard); ok {
			o.checked()
			prev := ""
			for i, f := range res.Fields {
				cur := f.String()
				if ref, ok := f.Expr.(*influxql.VarRef); !ok || i > 0 && !(prev < ref.Val || prev == ref.Val && i > 0 && res.Fields[i-1].String() != cur) {
					o.fail("", fmt.Sprintf("RewriteFields on %q over %s expands the wildcard to %s: not a duplicate-free list of references sorted by name", text, sj, res.Fields.String()), rp)
					break
				} else {
					prev = ref.Val
				}
			}
		}
	}
	// over a subquery: a whole wildcard stands for the subquery's output columns (as ColumnNames lists them) and its
	// dimensions, without the tags the statement groups by
	c12OverSubquery(o, q, res, rerr, text, string(sj), rp, sch)
	// the property, directly: the result is the independent expansion
	if !c12StandardTypes(sch) {
		return
	}
	for _, propertyText := range []bool{false, true} {
		wantF, wantD, wantErr, applicable := c12Spec(q, sch, propertyText)
		if !applicable {
			return
		}
		o.checked()
		class := ""
		if propertyText {
			class = "C12-regex-dim-drops-tags"
		}
		if wantErr != (rerr != nil) {
			o.fail("", fmt.Sprintf("RewriteFields on %q over %s: error=%v, expected error=%v", text, sj, rerr != nil, wantErr), rp)
			return
		}
		if rerr != nil {
			return
		}
		var gotF, gotD []string
		for _, f := range res.Fields {
			gotF = append(gotF, f.String())
		}
		for _, d := range res.Dimensions {
			gotD = append(gotD, d.String())
		}
		if strings.Join(gotF, "\x00") != strings.Join(wantF, "\x00") || strings.Join(gotD, "\x00") != strings.Join(wantD, "\x00") {
			o.fail(class, fmt.Sprintf("RewriteFields on %q over %s gives fields %q GROUP BY %q, the schema's columns are %q GROUP BY %q", text, sj, gotF, gotD, wantF, wantD), rp)
			return
		}
	}
}

// ---- generation ----
var c12FieldNames = []string{"v1", "v2", "v10", "value", "usage", "host", "region", "mean", "mean_v1", "A", "a_b", "é", "count_v1", "load avg", "float", "x:y"}
var c12TagNames = []string{"host", "region", "dc", "v1", "é", "hostname", "value"}
var c12Types = []string{"float", "integer", "unsigned", "string", "boolean"}
var c12OddTypes = []string{"time", "duration", "tag", "field", "unknown"}

func c12GenSchema(r *rng, odd bool) c12Schema {
	sch := c12Schema{}
	n := r.intn(4)
	for i := 0; i <= n; i++ {
		name := fmt.Sprintf("m%d", r.intn(4))
		if r.chance(1, 12) {
			name = ""
		}
		ms := &c12Meas{Fields: map[string]string{}}
		nf := r.intn(5)
		if r.chance(1, 8) {
			nf = 0
		}
		for j := 0; j < nf; j++ {
			t := pick(r, c12Types)
			if odd && r.chance(1, 3) {
				t = pick(r, c12OddTypes)
			}
			ms.Fields[pick(r, c12FieldNames)] = t
		}
		nt := r.intn(4)
		seen := map[string]bool{}
		for j := 0; j < nt; j++ {
			k := pick(r, c12TagNames)
			if !seen[k] {
				seen[k] = true
				ms.Tags = append(ms.Tags, k)
			}
		}
		sort.Strings(ms.Tags)
		ms.Err = r.chance(1, 25)
		sch[name] = ms
	}
	return sch
}

var c12FieldExprs = []string{"*", "*", "*::field", "*::tag", "/v/", "/^v1/", "/./", "/host|region/", "/é/", "v1", "v2", "host", "value", "nosuch", "v1::integer", "v1::field", "host::field", "host::tag", "region::field",
	"mean(*)", "mean(/v/)", "count(*)", "count(/./)", "max(*)", "min(/^v/)", "first(*)", "sum(*) AS s", "distinct(*)", "count(distinct(*))", "percentile(*, 90)", "holt_winters(mean(*), 2, 3)",
	"holt_winters_with_fit(max(/v/), 2, 3)", "derivative(mean(*), 1s)", "mean(*::field)", "mean(*::tag)", "top(*, 2)", "top(v1, host, 2)", "top(v1, *, 2)", "mean(v1)", "mean(host)", "f()", "mean(f())", "mean(f(*))",
	"v1 + v2", "v1 + host", "v1 * 2", "2u + v1", "v1 + 2u", "v1 + *", "v1 + /v/", "mean(*) + 1", "(*)", "(v1)", "(v1 + v2)", "mean((*))", "mode(*)", "sample(*, 3)", "elapsed(*)", "moving_average(mean(/v1/), 2)",
	"mean(mean_v1)", "A", "a_b", "\"é\"", "v1 AS host", "* AS x", "v10 + value", "usage / v2", "v1 AND value", "v1 = 'x'", "1", "'s'", "time",
	// a regex in a call is matched against the NAME of a column, as it is as a field and as a dimension: anchored at
	// either end, on names that need quotes, and never against a type word or the '::' of the printed reference
	"mean(/1$/)", "max(/^v1$/)", "count(/^v/)", "sum(/e$/)", "min(/^load/)", "count(/float|integer|boolean|string/)", "max(/:/)", "mean(/^\"/)", "derivative(max(/^v[12]$/))", "count(/avg$/)", "first(/ /)",
	"/1$/", "/^load/", "/avg$/", "/ /", "/:/"}
var c12Dims = []string{"", "", "", "host", "region", "*", "*", "/h/", "/^h/", "/./", "/nomatch/", "time(1m)", "time(1m), host", "host, time(1m)", "host, region", "time(1m), *", "region, /h/", "*, /h/", "/h/, /r/", "dc, *",
	"v1", "nosuch", "host::tag", "\"é\"", "*::tag",
	// regular expressions that spell tag keys out: anchored alternations out of order, with repeats, nested groups
	"/^(region|host)$/", "/^(host|(host))$/", "/^host$/", "/^(region|host|dc|host)$/", "/^(r|h)/", "/^(?:region|host)$/, /^dc$/", "/^(v1|region|host)$/", "/(?i)^(REGION|HOST)$/"}
var c12Conds = []string{"", "", "", " WHERE v1 > 1", " WHERE host = 'a' AND v2 < 2", " WHERE value::float > 1 OR nosuch = 2", " WHERE f(v1) > region", " WHERE host::field = 'a' AND region::field = 'b' AND v1::field = 1"}

func c12GenSelect(r *rng, depth int) string {
	n := 1 + r.intn(3)
	var fs []string
	for i := 0; i < n; i++ {
		fs = append(fs, pick(r, c12FieldExprs))
	}
	var srcs []string
	ns := 1 + r.intn(3)
	if r.chance(1, 2) {
		ns = 1
	}
	for i := 0; i < ns; i++ {
		switch {
		case depth > 0 && r.chance(1, 3):
			srcs = append(srcs, "("+c12GenSelect(r, depth-1)+")")
		case r.chance(1, 15):
			srcs = append(srcs, "/m/")
		case r.chance(1, 15):
			srcs = append(srcs, "db0.rp0.m1")
		default:
			srcs = append(srcs, fmt.Sprintf("m%d", r.intn(4)))
		}
	}
	t := "SELECT " + strings.Join(fs, ", ") + " FROM " + strings.Join(srcs, ", ") + pick(r, c12Conds)
	if d := pick(r, c12Dims); d != "" {
		t += " GROUP BY " + d
	}
	return t
}

func propC12(o *out, r *rng, thorough bool) {
	c12QualifiedSources(o)
	fixed := c12Schema{
		"m0": {Fields: map[string]string{"v1": "float", "v2": "integer", "value": "string"}, Tags: []string{"host", "region"}},
		"m1": {Fields: map[string]string{"v1": "integer", "v2": "unsigned", "value": "boolean", "usage": "unsigned"}, Tags: []string{"dc", "host", "v1"}},
		"m2": {Fields: map[string]string{"v1": "unsigned", "v2": "string", "host": "float"}, Tags: []string{"region"}},
		"m3": {Fields: map[string]string{}, Tags: []string{"host"}},
	}
	// every field expression x every GROUP BY over one, two and three measurements of a fixed clashing schema
	for _, f := range c12FieldExprs {
		for _, d := range c12Dims {
			for _, src := range []string{"m0", "m1, m0", "m2, m0, m1", "m3", "m2, m1"} {
				t := "SELECT " + f + " FROM " + src
				if d != "" {
					t += " GROUP BY " + d
				}
				c12One(o, t, fixed, "matrix")
			}
		}
		o.nontrivial(f)
	}
	// type precedence: every ordered pair and triple of types for one name across sources
	all := append(append([]string{}, c12Types...), c12OddTypes...)
	for _, a := range all {
		for _, b := range all {
			for _, c := range append([]string{""}, all...) {
				sch := c12Schema{"m0": {Fields: map[string]string{"x": a}, Tags: []string{"t"}}, "m1": {Fields: map[string]string{"x": b}, Tags: []string{"x"}}}
				src := "m0, m1"
				if c != "" {
					sch["m2"] = &c12Meas{Fields: map[string]string{"x": c}}
					src = "m0, m1, m2"
				}
				for _, f := range []string{"*", "x", "max(*)", "x + 1"} {
					c12One(o, "SELECT "+f+" FROM "+src, sch, "precedence")
				}
			}
		}
	}
	// subqueries whose output columns are themselves tags, grouped tags, aliases and expanded calls
	inners := []string{"SELECT host::field, v1 FROM m0", "SELECT host, v1 FROM (SELECT host::field, v1 FROM m0)", "SELECT region, v2 FROM (SELECT region::field, v2 FROM m0) GROUP BY region", "SELECT v1::tag, host::integer FROM m1",
		"SELECT bottom(v1, host, region, 2) FROM m0", "SELECT top(v1, host, 2), v2 FROM m0 GROUP BY region", "SELECT host, v1 FROM m0 GROUP BY host", "SELECT host, v1 FROM m0", "SELECT * FROM m0", "SELECT * FROM m0 GROUP BY *", "SELECT v1 FROM m0 GROUP BY host", "SELECT host::tag, v1 FROM m0",
		"SELECT mean(*) FROM m1 GROUP BY dc", "SELECT v1 AS host, v2 FROM m0 GROUP BY host", "SELECT max(v1), region FROM m0, m1 GROUP BY region, time(1m)", "SELECT top(v1, host, 2) FROM m0", "SELECT v1 + v2 AS s, value FROM m2",
		"SELECT * FROM (SELECT host, v1 FROM m0 GROUP BY host)", "SELECT /v/ FROM (SELECT * FROM m1) GROUP BY /h/"}
	for _, in := range inners {
		for _, f := range []string{"*", "*::tag", "*::field", "/./", "max(*)", "host", "v1", "s"} {
			for _, d := range []string{"", "host", "*", "/h/", "region"} {
				for _, extra := range []string{"", ", m0", ", m1"} {
					t := "SELECT " + f + " FROM (" + in + ")" + extra
					if d != "" {
						t += " GROUP BY " + d
					}
					c12One(o, t, fixed, "subquery matrix")
				}
			}
		}
	}
	n := 1500
	if thorough {
		n = 150000
	}
	for i := 0; i < n; i++ {
		odd := r.chance(1, 8)
		sch := c12GenSchema(r, odd)
		depth := r.intn(3)
		text := c12GenSelect(r, depth)
		tag := fmt.Sprintf("generated depth %d", depth)
		if odd {
			tag = "generated, odd mapper types"
		}
		c12One(o, text, sch, tag)
		o.nontrivial(text)
		if i < 6 {
			o.sample(text)
		}
	}
}

func init() {
	props["C12"] = propC12
	replayers["rewrite_fields"] = func(o *out, rp map[string]interface{}) {
		sch := c12Schema{}
		must(json.Unmarshal([]byte(rpStr(rp, "schema")), &sch))
		c12One(o, rpStr(rp, "text"), sch, "replay")
	}
}

func c12OverSubquery(o *out, q, res *influxql.SelectStatement, rerr error, text, sj string, rp map[string]interface{}, sch c12Schema) {
	if rerr != nil || len(q.Sources) != 1 || len(q.Fields) != 1 || res == nil || len(res.Sources) != 1 {
		return
	}
	if w, ok := q.Fields[0].Expr.(*influxql.Wildcard); !ok || w.Type != 0 && w.Type != influxql.MUL {
		return
	}
	sq, ok := res.Sources[0].(*influxql.SubQuery)
	if !ok {
		return
	}
	grouped := map[string]bool{}
	for _, d := range q.Dimensions {
		switch e := d.Expr.(type) {
		case *influxql.VarRef:
			grouped[e.Val] = true
		case *influxql.Call:
		default:
			return // a GROUP BY wildcard
		}
	}
	inner := sq.Statement
	var cols []string
	pn := safely(func() { cols = inner.ColumnNames() })
	if pn != nil || len(cols) == 0 {
		return
	}
	cols = cols[1:]
	// the subquery's own names: skip the statements whose column names were disambiguated with suffixes
	byName := map[string]bool{}
	for _, f := range inner.Fields {
		if byName[f.Name()] {
			return
		}
		byName[f.Name()] = true
	}
	for _, c := range cols {
		if c == "time" {
			return
		}
	}
	tagCol := map[string]bool{}
	for _, f := range inner.Fields {
		// (a column is a tag when the type evaluation says so: a tag written with a ::field cast is still a tag)
		if v, ok := f.Expr.(*influxql.VarRef); ok && (v.Type == influxql.Tag || influxql.EvalType(v, inner.Sources, &c12Mapper{sch}) == influxql.Tag) {
			tagCol[f.Name()] = true
		}
	}
	extra := map[string]bool{} // the tag arguments of top() and bottom(): columns of their own
	for _, c := range cols {
		if !byName[c] {
			extra[c] = true
			tagCol[c] = true
		}
	}
	want := map[string]bool{}
	nFields := 0
	for _, c := range cols {
		if tagCol[c] && grouped[c] {
			continue
		}
		want[c] = true
		nFields++
	}
	if nFields > 0 {
		for _, d := range inner.Dimensions {
			if v, ok := d.Expr.(*influxql.VarRef); ok && !grouped[v.Val] {
				want[v.Val] = true
			}
		}
	}
	got := map[string]bool{}
	for _, f := range res.Fields {
		v, ok := f.Expr.(*influxql.VarRef)
		if !ok {
			return
		}
		got[v.Val] = true
	}
	o.checked()
	var missing, surplus []string
	for k := range want {
		if !got[k] {
			missing = append(missing, k)
		}
	}
	for k := range got {
		if !want[k] {
			surplus = append(surplus, k)
		}
	}
	if len(missing) == 0 && len(surplus) == 0 {
		return
	}
	sort.Strings(missing)
	sort.Strings(surplus)
	class := ""
	if len(surplus) == 0 {
		class = "C12-subquery-top-tags"
		for _, k := range missing {
			if !extra[k] {
				class = ""
			}
		}
	}
	o.fail(class, fmt.Sprintf("RewriteFields on %q over %s: the wildcard over the subquery %s stands for %s; the subquery's output columns %q and dimensions are missing %q, not among them %q",
		text, sj, inner.String(), res.Fields.String(), cols, missing, surplus), rp)
}

// ---- sources that share a name but are different sources: the same measurement name in two databases, two regular
// expressions (whose name is empty).  Metamorphic: renaming them apart must not change the expansion. ----
type c12QMapper struct{ renamed bool }

func (m c12QMapper) key(mm *influxql.Measurement) string {
	if mm.Regex != nil {
		return "re:" + mm.Regex.Val.String()
	}
	if m.renamed {
		return mm.Name // cpu_t, cpu_a, mem_t ...
	}
	return mm.Database + "|" + mm.RetentionPolicy + "|" + mm.Name
}

var c12QSchemas = map[string]*c12Meas{
	"telegraf||cpu": {Fields: map[string]string{"a": "float", "b": "integer"}, Tags: []string{"host"}},
	"archive||cpu":  {Fields: map[string]string{"c": "string", "b": "float"}, Tags: []string{"dc"}},
	"telegraf|week|cpu": {Fields: map[string]string{"w": "unsigned"}, Tags: []string{"host", "rack"}},
	"re:^cpu":       {Fields: map[string]string{"r1": "float"}, Tags: []string{"t1"}},
	"re:^mem":       {Fields: map[string]string{"r2": "integer", "r1": "integer"}, Tags: []string{"t2"}},
	"cpu_t":         {Fields: map[string]string{"a": "float", "b": "integer"}, Tags: []string{"host"}},
	"cpu_a":         {Fields: map[string]string{"c": "string", "b": "float"}, Tags: []string{"dc"}},
	"cpu_w":         {Fields: map[string]string{"w": "unsigned"}, Tags: []string{"host", "rack"}},
	"re_cpu":        {Fields: map[string]string{"r1": "float"}, Tags: []string{"t1"}},
	"re_mem":        {Fields: map[string]string{"r2": "integer", "r1": "integer"}, Tags: []string{"t2"}},
}

func (m c12QMapper) FieldDimensions(mm *influxql.Measurement) (map[string]influxql.DataType, map[string]struct{}, error) {
	return (&c12Mapper{c12Schema{mm.Name: c12QSchemas[m.key(mm)]}}).FieldDimensions(mm)
}
func (m c12QMapper) MapType(mm *influxql.Measurement, field string) influxql.DataType {
	return (&c12Mapper{c12Schema{mm.Name: c12QSchemas[m.key(mm)]}}).MapType(mm, field)
}

func c12QualifiedSources(o *out) {
	pairs := [][2]string{
		{"telegraf..cpu, archive..cpu", "cpu_t, cpu_a"}, {"archive..cpu, telegraf..cpu", "cpu_a, cpu_t"}, {"/^cpu/, /^mem/", "re_cpu, re_mem"}, {"/^mem/, /^cpu/", "re_mem, re_cpu"},
		{"telegraf..cpu, telegraf.week.cpu, archive..cpu", "cpu_t, cpu_w, cpu_a"}, {"telegraf..cpu, /^mem/, archive..cpu", "cpu_t, re_mem, cpu_a"}, {"telegraf..cpu, telegraf..cpu", "cpu_t, cpu_t"},
	}
	for _, fields := range []string{"*", "mean(*)", "/./", "*::tag", "*::field", "max(/^[abr]/), *", "a"} {
		for _, dims := range []string{"", " GROUP BY *", " GROUP BY host", " GROUP BY /^(h|d|t)/"} {
			for _, p := range pairs {
				var outs [2]string
				for i, renamed := range []bool{false, true} {
					text := "SELECT " + fields + " FROM " + p[i] + dims
					st, err := influxql.ParseStatement(text)
					if err != nil {
						outs[i] = "parse error"
						continue
					}
					var res *influxql.SelectStatement
					var rerr error
					pn := safely(func() { res, rerr = st.(*influxql.SelectStatement).RewriteFields(c12QMapper{renamed}) })
					if pn != nil || rerr != nil || res == nil {
						outs[i] = fmt.Sprint("error ", pn, rerr)
					} else {
						outs[i] = res.Fields.String() + " GROUP BY " + res.Dimensions.String()
					}
				}
				o.count("same-name sources")
				o.checked()
				if outs[0] != outs[1] {
					o.fail("", fmt.Sprintf("SELECT %s FROM %s%s expands to %s; with the same sources under names of their own (%s) to %s", fields, p[0], dims, outs[0], p[1], outs[1]),
						map[string]interface{}{"op": "same_name_sources", "text": fields + "|" + p[0] + "|" + dims})
				}
			}
		}
	}
}
