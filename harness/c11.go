package main

import (
	"fmt"
	"regexp"
	"regexp/syntax"
	"sort"
	"strings"

	"github.com/influxdata/influxql"
)

// C11: regex-to-literal rewriting preserves which strings match.

func resynSexp(re *syntax.Regexp) string {
	var b sb
	var enc func(re *syntax.Regexp)
	enc = func(re *syntax.Regexp) {
		fold := re.Flags&syntax.FoldCase != 0
		subs := func() {
			b.open()
			for i, s := range re.Sub {
				if i > 0 {
					b.sp()
				}
				enc(s)
			}
			b.close()
		}
		switch re.Op {
		case syntax.OpLiteral:
			// the runes as the syntax tree holds them (string(re.Rune) would turn a surrogate into U+FFFD)
			b.open(); b.atom(1); b.sp(); b.boolean(fold); b.sp(); b.open()
			for i, r := range re.Rune {
				if i > 0 {
					b.sp()
				}
				b.atom(int64(r))
			}
			b.close(); b.close()
		case syntax.OpCharClass:
			b.open(); b.atom(2); b.sp(); b.boolean(fold); b.sp(); b.open()
			for i := 0; i+1 < len(re.Rune); i += 2 {
				if i > 0 {
					b.sp()
				}
				b.open(); b.atom(int64(re.Rune[i])); b.sp(); b.atom(int64(re.Rune[i+1])); b.close()
			}
			b.close(); b.close()
		case syntax.OpCapture:
			b.open(); b.atom(3); b.sp(); b.boolean(fold); b.sp(); enc(re.Sub[0]); b.close()
		case syntax.OpConcat:
			b.open(); b.atom(4); b.sp(); b.boolean(fold); b.sp(); subs(); b.close()
		case syntax.OpAlternate:
			b.open(); b.atom(5); b.sp(); b.boolean(fold); b.sp(); subs(); b.close()
		case syntax.OpBeginText:
			b.WriteString("(6)")
		case syntax.OpEndText:
			b.WriteString("(7)")
		case syntax.OpBeginLine:
			b.WriteString("(8)")
		case syntax.OpEndLine:
			b.WriteString("(9)")
		default:
			b.open(); b.atom(10); b.sp(); b.boolean(fold); b.sp(); b.atom(int64(re.Op)); b.close()
		}
	}
	enc(re)
	return b.String()
}

// literalFragment: the tree uses only operators whose semantics the model defines
func literalFragment(re *syntax.Regexp) bool {
	switch re.Op {
	case syntax.OpLiteral, syntax.OpCharClass:
		return re.Flags&syntax.FoldCase == 0
	case syntax.OpCapture, syntax.OpConcat, syntax.OpAlternate:
		for _, s := range re.Sub {
			if !literalFragment(s) {
				return false
			}
		}
		return true
	case syntax.OpBeginText, syntax.OpEndText, syntax.OpBeginLine, syntax.OpEndLine:
		return true
	}
	return false
}

func synTable(e influxql.Expr) string {
	pats := map[string]bool{}
	influxql.WalkFunc(e, func(n influxql.Node) {
		if r, ok := n.(*influxql.RegexLiteral); ok && r.Val != nil {
			pats[r.Val.String()] = true
		}
	})
	keys := make([]string, 0, len(pats))
	for k := range pats {
		keys = append(keys, k)
	}
	sort.Strings(keys)
	var b sb
	b.open()
	for i, p := range keys {
		if i > 0 {
			b.sp()
		}
		b.open(); b.text(p); b.sp()
		re, err := syntax.Parse(p, syntax.Perl)
		if err != nil {
			b.WriteString("(0)")
		} else {
			b.WriteString("(1 " + resynSexp(re.Simplify()) + ")")
		}
		b.close()
	}
	b.close()
	return b.String()
}

// candidate strings: every string up to maxLen over the regex's own letters plus a foreign character and a line break
func candidates(pattern string, maxLen int) []string {
	alpha := map[rune]bool{'Z': true, '\n': true}
	if strings.Contains(pattern, "(?i") || strings.Contains(pattern, "[sS]") || strings.Contains(pattern, "[kK]") {
		// letters with a third case variant: long s, Kelvin sign
		alpha['\u017f'], alpha['\u212a'], alpha['S'], alpha['K'] = true, true, true, true
	}
	for _, r := range pattern {
		if r >= 'a' && r <= 'z' || r >= '0' && r <= '9' || r == 'A' || r == '$' || r == '^' || (r >= 0x80 && r != 0xFFFD) {
			alpha[r] = true
		}
	}
	var rs []rune
	for r := range alpha {
		rs = append(rs, r)
	}
	sort.Slice(rs, func(i, j int) bool { return rs[i] < rs[j] })
	if len(rs) > 8 {
		rs = rs[:8]
	}
	out := []string{""}
	prev := []string{""}
	for l := 1; l <= maxLen; l++ {
		var next []string
		for _, p := range prev {
			for _, r := range rs {
				next = append(next, p+string(r))
			}
		}
		out = append(out, next...)
		prev = next
	}
	return out
}

var c11Patterns = []string{
	"^foo$", "^(foo|bar)$", "^$", "^a$", "^[ab]$", "^[a-c]x$", "^(a|b)(c|d)$", "^a(b|c)d$", "^(ab|c)(d|ef)$", "^[ab][cd][ef]$", "foo", "^foo", "foo$", "^fo+$", "^fo*$", "^fo?$", "^f.o$",
	"(?i)^foo$", "^(?i)foo$", "^(?i:f)oo$", "^f(?i)o$", "(?m)^foo$", "^a(?m:$)", "(?m:^)a$", "(?m)^a$|^b$", "^a$|^b$", "^(^a)$", "^a{2}$", "^a{2,3}$", "^(a{2}|b)$", "^[a-z]$", "^[a-z][a-z]$",
	"^[0-9][0-9]$", "^[0-9][0-9][0-9]$", "^(a|b|c|d|e|f|g|h|i|j)(0|1|2|3|4|5|6|7|8|9)$", "^(a|b|c|d|e|f|g|h|i|j|k)(0|1|2|3|4|5|6|7|8|9)$", "^[^a]$", "^\\d$", "^\\w$", "^a\\b$", "^a\\z", "\\Aa$",
	"\\Aa\\z", "^()$", "^(|a)$", "^(a|)$", "^a|b$", "^(a)(b)$", "^((a))$", "^(?:a|b)$", "^(?P<n>a|b)$", "^a\\nb$", "^a\nb$", "^\\x41$", "^é$", "^[é]$", "^ab|ac$", "^a(b)?$", "^[ab]+$", "^(ab)$", "^a.$",
	"^(?s:a.)$", "^a$$", "^^a$", "^(foo)$", "^foo|$", "^(a|a)$", "^[aa]$", "^(a|b)$(c)", "^[a-cx-z]$", "^[a-j][a-j]$", "^[a-k][a-j]$", "(?U)^a$", "^(?-m:a)$",
	// case folding switched on INSIDE a capture group; empty character classes (match nothing)
	"^((?i)abc)$", "^((?i:abc))$", "^x((?i)a)y$", "^(((?i)ab))(c|d)$", "^((?i)a)(b|c)$", "^(a(?i)b)$", "^((?i)a|b)$", "^((?-i)a)$", "(?i)^((?-i)a)$", "(?i)^((?-i:a)b)$",
	"^[^\\s\\S]$", "^a[^\\w\\W]$", "^[^\\x00-\\x{10FFFF}](a|b)$", "^[^\\d\\D]b$", "^(a|[^\\s\\S])$", "^([^\\s\\S])$", "^a[^\\s\\S]?$",
	// small negated classes: what is left includes the line feed; single folded letters with three case variants
	"^[^\\S]$", "^[^\\S\\t]$", "^a[^\\S ]$", "^[^\\x00-\\x09\\x0b-\\x{10FFFF}]$", "^[^\\S]b$", "(?i)^s$", "(?i)^k$", "^(?i:s)$", "^[sS]$", "^[kK]$", "(?i)^ǅ$", "^[^\\D1-9]$",
	// class members and single-rune alternatives in U+0080..U+00FF and just above; doubled and inner anchors
	// counted repetitions of a group that puts a class or an alternation next to a literal (Simplify makes the copies
	// share one node); surrogates, which have no string form
	"^(?:[ab]x){2}$", "^(?:x[ab]){2}y$", "^(?:(?:ab|c)-){2}$", "^(?:[ab]x){3}$", "^(?:a|b){2}$", "^([ab]x){2}(c|d)$", "^(?:x[ab]y){2,2}$", "^(?:[ab]){2}[cd]$",
	"^[\\x{D800}-\\x{D801}]$", "^(\\x{D800}|ab)$", "^a[\\x{DFFF}b]$", "^\\x{D800}$", "^[\\x{D7FF}-\\x{D800}]$", "^[\\x{DFFF}-\\x{E000}]$", "^a\\x{DC00}b$", "^[\\x{10FFFF}]$",
	"^(?i:foo|bar)$", "(?i)^(?:foo|bar)$", "^((?i)foo|bar)$", "^(?:(?i)foo|bar)$", "^x(?i:ab|cd)y$", "^(?i:a|b)c$", "^(foo|(?i:bar))$", "^[éè]$", "^(ü|ö)$", "^[\\x{80}-\\x{82}]$", "^[\\x{FE}-\\x{101}]$", "^a[ÿĀ]$", "^[é]$", "^a$$", "^^a$", "^a^$", "^$a$", "^a$b$", "^(a$)$",
}

func c11Exact(o *out, p string) {
	o.count("pattern")
	re, err := syntax.Parse(p, syntax.Perl)
	if err != nil {
		return
	}
	simp := re.Simplify()
	var vals []string
	var ok bool
	if pn := safely(func() { vals, ok = influxql.VerifMatchExactRegex(p) }); pn != nil {
		o.checked()
		o.fail("", fmt.Sprintf("matchExactRegex panics on /%s/: %v", p, pn), map[string]interface{}{"op": "regex_exact", "text": p})
		return
	}
	resp := "(0)"
	if ok {
		resp = "(1 " + textsSexp(vals) + ")"
	}
	vm := asciiNoFloat(p)
	o.addCaseVM("(28 "+resynSexp(simp)+")", resp, "matchExactRegex "+p, vm)
	rx := regexp.MustCompile(p)
	rp := map[string]interface{}{"op": "regex_exact", "text": p}
	// my regex semantics against Go's engine on the fragment it defines
	cands := candidates(p, 3)
	if literalFragment(simp) {
		for _, s := range cands {
			b := "0"
			if rx.MatchString(s) {
				b = "1"
			}
			o.addCaseVM("(27 "+resynSexp(simp)+" "+textSexp(s)+")", b, fmt.Sprintf("MatchString(%q, %q)", p, s), vm)
		}
	}
	// premise of the rewrite theorem: the parser emits no empty class and no empty alternation
	// the property itself: rewritten only when the regex matches precisely a finite set of whole strings, which is the substituted set
	if ok {
		set := map[string]bool{}
		for _, v := range vals {
			set[v] = true
		}
		// (an empty list: the regex matches no value at all - an empty character class - and the caller leaves it alone)
		for _, s := range append(cands, vals...) {
			o.checked()
			if rx.MatchString(s) != set[s] {
				o.fail("", fmt.Sprintf("/%s/ is rewritten to the literals %q, but MatchString(%q) = %v", p, vals, s, rx.MatchString(s)), rp)
				return
			}
		}
		if len(vals) > 100 {
			o.fail("", fmt.Sprintf("/%s/ expanded to %d literals", p, len(vals)), rp)
		}
	}
}

func c11Cond(o *out, text string, tag string) {
	st, err := influxql.ParseStatement(text)
	if err != nil {
		return
	}
	q := st.(*influxql.SelectStatement)
	if q.Condition == nil {
		return
	}
	o.count(tag)
	before := influxql.CloneExpr(q.Condition)
	tbl := synTable(before)
	var pn interface{}
	pn = safely(func() { q.RewriteRegexConditions() })
	rp := map[string]interface{}{"op": "regex_rewrite", "text": text}
	o.checked()
	if pn != nil {
		o.fail("", fmt.Sprintf("RewriteRegexConditions on %q panics: %v", text, pn), rp)
		return
	}
	o.addCaseVM("(26 "+tbl+" "+exprSexp(before)+")", exprSexp(q.Condition), "RewriteRegexConditions "+text, asciiNoFloat(text))
	// the rewritten condition accepts exactly the same values
	var pats []string
	influxql.WalkFunc(before, func(n influxql.Node) {
		if r, ok := n.(*influxql.RegexLiteral); ok {
			pats = append(pats, r.Val.String())
		}
	})
	cands := candidates(strings.Join(pats, ""), 3)
	for _, h := range cands {
		for _, g := range []string{"", "a", "Z"} {
			o.checked()
			env := map[string]interface{}{"host": h, "region": g, "n": int64(1)}
			if influxql.EvalBool(before, env) != influxql.EvalBool(q.Condition, env) {
				o.fail("", fmt.Sprintf("%q: before the rewrite host=%q region=%q gives %v, after (%s) it gives %v", text, h, g,
					influxql.EvalBool(before, env), q.Condition.String(), influxql.EvalBool(q.Condition, env)), rp)
				return
			}
		}
	}
}

func propC11(o *out, r *rng, thorough bool) {
	for _, p := range c11Patterns {
		c11Exact(o, p)
		o.sample("/" + p + "/")
		o.nontrivial(p)
		for _, op := range []string{"=~", "!~"} {
			c11Cond(o, fmt.Sprintf("SELECT v FROM m WHERE host %s /%s/", op, strings.Replace(p, "/", `\/`, -1)), "single")
		}
	}
	// generated regexes from literals, classes, groups, alternation, repetition, anchors and flags
	atoms := []string{"(?:[ab]x){2}", "(?:x[ab]){2}", "(?:a|bc){2}", "[\\x{D800}a]", "a", "b", "ab", "[ab]", "[a-c]", "(a|b)", "(ab|c)", "(a)", "a?", "a+", "a*", ".", "\\d", "[0-9]", "(?i:a)", "", "A", "\\n", "a{2}", "(a|b|c)", "[^a]", "\\b", "((?i)a)", "((?i:b))", "((?i)ab)", "[^\\s\\S]", "(a(?i)b)"}
	pre := []string{"^", "^", "^", "", "(?m)^", "(?i)^", "\\A", "(?m:^)", "^(", "(?s)^"}
	post := []string{"$", "$", "$", "", "(?m:$)", "\\z", ")$"}
	n := 600
	if thorough {
		n = 60000
	}
	for i := 0; i < n; i++ {
		p := pick(r, pre)
		k := 1 + r.intn(3)
		for j := 0; j < k; j++ {
			p += pick(r, atoms)
			if r.chance(1, 6) {
				p += "|"
			}
		}
		p += pick(r, post)
		if _, err := regexp.Compile(p); err != nil {
			continue
		}
		c11Exact(o, p)
		o.nontrivial(p)
		esc := strings.Replace(p, "/", `\/`, -1)
		if strings.Contains(esc, "\n") {
			continue
		}
		switch r.intn(4) {
		case 0:
			c11Cond(o, fmt.Sprintf("SELECT v FROM m WHERE host =~ /%s/ AND region = 'a'", esc), "generated")
		case 1:
			c11Cond(o, fmt.Sprintf("SELECT v FROM m WHERE (host !~ /%s/ OR region =~ /^(a|Z)$/) AND n = 1", esc), "generated")
		case 2:
			c11Cond(o, fmt.Sprintf("SELECT v FROM m WHERE region != 'a' AND (host =~ /%s/)", esc), "generated")
		default:
			c11Cond(o, fmt.Sprintf("SELECT v FROM m WHERE host =~ /%s/ + 1 OR f(host !~ /%s/)", esc, esc), "odd")
		}
	}
}

func init() {
	props["C11"] = propC11
	replayers["regex_exact"] = func(o *out, rp map[string]interface{}) { c11Exact(o, rpStr(rp, "text")) }
	replayers["regex_rewrite"] = func(o *out, rp map[string]interface{}) { c11Cond(o, rpStr(rp, "text"), "replay") }
}
