package main

import (
	"bufio"
	"fmt"
	"os"
	"path/filepath"
	"unicode"
)

// dumpTables writes oracle tables computed with the real Go libraries.
func dumpTables(dir string) {
	must(os.MkdirAll(dir, 0o755))
	f, err := os.Create(filepath.Join(dir, "ulower.tbl"))
	must(err)
	w := bufio.NewWriter(f)
	for r := rune(128); r <= unicode.MaxRune; r++ {
		if l := unicode.ToLower(r); l != r {
			fmt.Fprintf(w, "%d %d\n", r, l)
		}
	}
	w.Flush()
	f.Close()
}
