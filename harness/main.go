package main

// Correspondence harness: drives the real implementation (built from /repo
// with -tags verif) and writes, for the model runner to answer, the same
// inputs together with the implementation's observable behaviour; also
// evaluates each property directly on the implementation.

import (
	"github.com/influxdata/influxql"
	"strings"
	"runtime/debug"
	"flag"
	"fmt"
	"os"
	"strconv"
)

type propFn func(o *out, r *rng, thorough bool)

var props = map[string]propFn{}

func main() {
	if len(os.Args) < 2 {
		fmt.Fprintln(os.Stderr, "usage: harness <property|tables|replay> [flags]")
		os.Exit(2)
	}
	cmd := os.Args[1]
	fs := flag.NewFlagSet(cmd, flag.ExitOnError)
	tier := fs.String("tier", "quick", "quick|thorough")
	seed := fs.Uint64("seed", 1, "PRNG seed")
	dir := fs.String("out", "", "output directory")
	replay := fs.String("replay", "", "replay file")
	fs.Parse(os.Args[2:])
	if s := os.Getenv("VERIF_SEED"); s != "" && !flagSet(fs, "seed") {
		if v, err := strconv.ParseUint(s, 10, 64); err == nil {
			*seed = v
		}
	}
	if cmd == "stackprobe" { // child process of the C04 run: nested parentheses to the depth given; may die with a fatal error
		n, _ := strconv.Atoi(fs.Arg(0))
		_, err := influxql.ParseStatement("SELECT " + strings.Repeat("(", n) + "1" + strings.Repeat(")", n) + " FROM m")
		fmt.Println("returned", err == nil)
		return
	}
	if cmd == "tables" {
		dumpTables(*dir)
		return
	}
	fn, ok := props[cmd]
	if !ok {
		fmt.Fprintln(os.Stderr, "unknown property", cmd)
		os.Exit(2)
	}
	if *replay != "" {
		os.Exit(runReplay(cmd, *replay))
	}
	o := newOut(*dir)
	// a call into the implementation that is not individually guarded and panics: the run is cut short, which must show
	// as a violation with the panic as its description, not as a crashed check
	func() {
		defer func() {
			if pn := recover(); pn != nil {
				o.checked()
				o.fail("", fmt.Sprintf("the implementation panicked inside the %s run: %v\n%s", cmd, pn, debug.Stack()), map[string]interface{}{"op": "panic", "what": fmt.Sprint(pn)})
			}
		}()
		fn(o, newRng(*seed), *tier == "thorough")
	}()
	o.finish()
}

func flagSet(fs *flag.FlagSet, name string) bool {
	set := false
	fs.Visit(func(f *flag.Flag) {
		if f.Name == name {
			set = true
		}
	})
	return set
}
