package main

import (
	"sort"
	"fmt"
	"math/big"
	"regexp"
	"strings"
	"time"

	"github.com/influxdata/influxql"
)

// C18: SetTimeRange replaces earlier time bounds, over any sequence of windows.

type c18cond struct {
	text    string
	nonTime func(tags map[string]interface{}) bool // the non-time part of the condition; nil = not evaluated
	inClass bool                                   // the property's class: time bounds joined by AND/parentheses, OR among non-time predicates only
}

type c18gen struct {
	r *rng
	g *c10gen
}

func (g *c18gen) timePred() string {
	p := g.g.timePred()
	t := p.text
	if !strings.Contains(t, "\"") {
		if g.r.chance(1, 6) {
			t = strings.Replace(t, "time", "(time)", 1)
		} else if g.r.chance(1, 10) {
			t = strings.Replace(t, "time", "time::tag", 1)
		}
	}
	switch g.r.intn(8) { // the whole comparison alone in parentheses, once or twice
	case 0:
		t = "(" + t + ")"
	case 1:
		t = "((" + t + "))"
	}
	return t
}

func (g *c18gen) pred() (string, func(map[string]interface{}) bool) {
	switch g.r.intn(10) {
	case 0:
		n := int64(g.r.intn(5))
		return fmt.Sprintf("abs(value) > %d", n), nil
	case 1:
		n := int64(g.r.intn(5))
		return fmt.Sprintf("value + value > %d", n), func(t map[string]interface{}) bool { return 2*t["value"].(int64) > n }
	case 2:
		return "host = region", func(t map[string]interface{}) bool { return t["host"] == t["region"] }
	case 4: // a constant side written as arithmetic over whole and fractional numbers: folded, never changed in value
		lits := []string{"1", "2", "3", "0.5", "2.5", "1.0", "4.25"}
		vals := []float64{1, 2, 3, 0.5, 2.5, 1.0, 4.25}
		i, j := g.r.intn(len(lits)), g.r.intn(len(lits))
		op := pick(g.r, []string{"+", "-", "*"})
		var c float64
		switch op {
		case "+":
			c = vals[i] + vals[j]
		case "-":
			c = vals[i] - vals[j]
		default:
			c = vals[i] * vals[j]
		}
		cmp := pick(g.r, []string{">", "<=", "<", ">="})
		lhs := pick(g.r, []string{"value", "abs2(value)"})
		text := fmt.Sprintf("%s %s %s %s %s", lhs, cmp, lits[i], op, lits[j])
		if lhs != "value" {
			return text, nil
		}
		return text, func(t map[string]interface{}) bool {
			v := float64(t["value"].(int64))
			switch cmp {
			case ">":
				return v > c
			case "<=":
				return v <= c
			case "<":
				return v < c
			}
			return v >= c
		}
	case 5: // values that look like dates: they are values of a tag, not instants, and stay as they are written
		v := pick(g.r, []string{"2024-05-01", "2024-05-01 12:00:00", "2000-01-01T00:00:00Z", "2020-02-30", "1999-12-31 23:59:59.5"})
		op := pick(g.r, []string{"=", "!=", "<", ">="})
		k := pick(g.r, []string{"host", "region"})
		text := fmt.Sprintf("%s %s '%s'", k, op, v)
		if op == "<" || op == ">=" {
			return text, nil
		}
		return text, func(t map[string]interface{}) bool { return (t[k] == v) == (op == "=") }
	case 3: // type-annotated references: the annotation is part of the predicate
		switch g.r.intn(4) {
		case 0:
			return "host::tag = 'a'", func(t map[string]interface{}) bool { return t["host"] == "a" }
		case 1:
			n := int64(g.r.intn(5))
			return fmt.Sprintf("value::integer > %d", n), func(t map[string]interface{}) bool { return t["value"].(int64) > n }
		case 2:
			return "region::tag != host::tag", func(t map[string]interface{}) bool { return t["host"] != t["region"] }
		default:
			return "value::field + 1 > 2", func(t map[string]interface{}) bool { return t["value"].(int64)+1 > 2 }
		}
	default:
		p := g.g.nonTime(2)
		return p.text, func(t map[string]interface{}) bool { return p.holds(nil, t) }
	}
}

// cond: time bounds and other predicates joined by AND and parentheses
func (g *c18gen) cond(depth int, ntimes *int) (string, func(map[string]interface{}) bool, bool) {
	if depth == 0 {
		if g.r.chance(2, 5) {
			*ntimes++
			return g.timePred(), func(map[string]interface{}) bool { return true }, true
		}
		t, h := g.pred()
		return t, h, h != nil
	}
	at, ah, aok := g.cond(depth-1, ntimes)
	bt, bh, bok := g.cond(depth-1, ntimes)
	t := at + " AND " + bt
	if g.r.chance(1, 3) {
		t = "(" + t + ")"
	}
	if !aok || !bok {
		return t, nil, false
	}
	return t, func(m map[string]interface{}) bool { return ah(m) && bh(m) }, true
}

func (g *c18gen) window() (time.Time, time.Time) {
	base := time.Date(1700+g.r.intn(540), time.Month(1+g.r.intn(12)), 1+g.r.intn(28), g.r.intn(24), g.r.intn(60), g.r.intn(60), 0, time.UTC)
	switch g.r.intn(4) {
	case 0:
		base = base.Add(time.Duration(g.r.intn(1e9)))
	case 1:
		base = base.Add(time.Duration(g.r.intn(1000)) * time.Millisecond)
	}
	d := pick(g.r, []time.Duration{time.Nanosecond, time.Millisecond, 500 * time.Millisecond, time.Second, time.Minute, 10 * time.Minute, time.Hour, 24 * time.Hour, 7 * 24 * time.Hour, 1234567891 * time.Nanosecond})
	end := base.Add(d)
	switch g.r.intn(24) {
	case 20: // up to the last instant there is
		end = time.Unix(0, influxql.MaxTime).UTC()
	case 21:
		end = time.Unix(0, influxql.MaxTime-1).UTC()
	case 22: // from the first
		base = time.Unix(0, influxql.MinTime+1).UTC()
	case 23:
		base, end = time.Unix(0, influxql.MinTime+2).UTC(), time.Unix(0, influxql.MaxTime).UTC()
	}
	switch g.r.intn(9) {
	case 7: // an empty window: the end is the start
		end = base
	case 8: // a window whose end lies before its start: it selects nothing, it is not the window read backwards
		base, end = end, base
	}
	switch g.r.intn(6) {
	case 0:
		loc := time.FixedZone("x", 3600*(g.r.intn(24)-12))
		return base.In(loc), end.In(loc)
	}
	return base, end
}

var c18Stamp = regexp.MustCompile(`'\d{4}-\d\d-\d\dT[0-9:.]+Z'`)

// typedRefs: the type-annotated references other than the time column, sorted
func typedRefs(e influxql.Expr) string {
	var out []string
	if e == nil {
		return ""
	}
	influxql.WalkFunc(e, func(n influxql.Node) {
		if v, ok := n.(*influxql.VarRef); ok && v.Type != influxql.Unknown && strings.ToLower(v.Val) != "time" {
			out = append(out, v.String())
		}
	})
	sort.Strings(out)
	return strings.Join(out, " ")
}

// hasConstant: a boolean literal or a comparison of two literals - folding may then drop a whole predicate
func hasConstant(e influxql.Expr) bool {
	found := false
	if e == nil {
		return false
	}
	isLit := func(x influxql.Expr) bool {
		switch x.(type) {
		case *influxql.BooleanLiteral, *influxql.IntegerLiteral, *influxql.NumberLiteral, *influxql.StringLiteral, *influxql.UnsignedLiteral:
			return true
		}
		return false
	}
	influxql.WalkFunc(e, func(n influxql.Node) {
		switch x := n.(type) {
		case *influxql.BooleanLiteral:
			found = true
		case *influxql.BinaryExpr:
			if isLit(x.LHS) && isLit(x.RHS) {
				found = true
			}
		}
	})
	return found
}

func c18Seq(o *out, c c18cond, windows [][2]time.Time, tag string) {
	var cond influxql.Expr
	if c.text != "" {
		e, err := influxql.ParseExpr(c.text)
		if err != nil {
			return
		}
		cond = e
	}
	o.count(tag)
	st := &influxql.SelectStatement{Fields: influxql.Fields{{Expr: &influxql.VarRef{Val: "v"}}}, Sources: influxql.Sources{&influxql.Measurement{Name: "m"}}, Condition: influxql.CloneExpr(cond)}
	var ws []string
	var wsx sb
	wsx.open()
	for i, w := range windows {
		ws = append(ws, w[0].Format(time.RFC3339Nano)+"|"+w[1].Format(time.RFC3339Nano))
		if i > 0 {
			wsx.sp()
		}
		wsx.open(); wsx.WriteString(timeNanosString(w[0])); wsx.sp(); wsx.WriteString(timeNanosString(w[1])); wsx.close()
	}
	wsx.close()
	rp := map[string]interface{}{"op": "set_time_range", "text": c.text, "windows": strings.Join(ws, ",")}
	// correspondence first: the condition after every call, whatever the direct checks below say
	{
		st0 := &influxql.SelectStatement{Fields: st.Fields, Sources: st.Sources, Condition: influxql.CloneExpr(cond)}
		var resp0 sb
		resp0.open()
		ok := true
		for k, w := range windows {
			var err error
			if pn := safely(func() { err = st0.SetTimeRange(w[0], w[1]) }); pn != nil || err != nil {
				ok = false
				break
			}
			if k > 0 {
				resp0.sp()
			}
			resp0.expr(st0.Condition)
		}
		resp0.close()
		if ok {
			copt := "(0)"
			if cond != nil {
				copt = "(1 " + exprSexp(cond) + ")"
			}
			req := "(30 " + copt + " " + wsx.String() + ")"
			uses := false
			if cond != nil {
				req, uses = withSemOracles(req, cond)
			}
			o.addCaseVM(req, resp0.String(), "SetTimeRange x"+fmt.Sprint(len(windows))+" on "+c.text, !uses && asciiNoFloat(c.text))
		}
	}
	var resp sb
	resp.open()
	shape := ""
	valuer := &influxql.NowValuer{Now: c10Now}
	for k, w := range windows {
		var err error
		pn := safely(func() { err = st.SetTimeRange(w[0], w[1]) })
		o.checked()
		if pn != nil || err != nil {
			o.fail("", fmt.Sprintf("SetTimeRange #%d on %q fails: %v %v", k+1, c.text, pn, err), rp)
			return
		}
		if k > 0 {
			resp.sp()
		}
		resp.expr(st.Condition)
		printed := st.Condition.String()
		// the window, exactly: only the last call's window applies
		var resid influxql.Expr
		var tr influxql.TimeRange
		var cerr error
		pn = safely(func() { resid, tr, cerr = influxql.ConditionExpr(st.Condition, valuer) })
		o.checked()
		if pn != nil || cerr != nil {
			o.fail("", fmt.Sprintf("after SetTimeRange #%d on %q the condition %s cannot be split: %v %v", k+1, c.text, printed, pn, cerr), rp)
			return
		}
		if b, ok := st.Condition.(*influxql.BooleanLiteral); ok && !b.Val {
			// the non-time part is constantly false: nothing is selected in any window, so no window needs to be kept
		} else if !tr.Min.Equal(w[0]) || !tr.Max.Equal(w[1].Add(-time.Nanosecond)) {
			o.fail("", fmt.Sprintf("after SetTimeRange #%d [%s, %s) on %q the condition %s selects the range [%s, %s]", k+1, w[0].UTC().Format(time.RFC3339Nano), w[1].UTC().Format(time.RFC3339Nano),
				c.text, printed, tr.Min.Format(time.RFC3339Nano), tr.Max.Format(time.RFC3339Nano)), rp)
			return
		}
		// every other predicate is kept: the residual means the non-time part of the original condition
		if c.nonTime != nil {
			for _, host := range []string{"a", "b", "c"} {
				for _, region := range []string{"a", "b", "x"} {
					for _, value := range []int64{0, 1, 2, 4} {
						tags := map[string]interface{}{"host": host, "region": region, "value": value}
						o.checked()
						got := true
						if resid != nil {
							got = influxql.EvalBool(resid, tags)
						}
						if got != c.nonTime(tags) {
							o.fail("", fmt.Sprintf("after SetTimeRange #%d on %q the non-time part is %v, which gives %v at %v; the original's non-time predicates give %v", k+1, c.text, resid, got, tags, !got), rp)
							return
						}
					}
				}
			}
		}
		// kept predicates are kept as written: every type annotation of a non-time reference survives
		o.checked()
		if want, got := typedRefs(cond), typedRefs(st.Condition); want != got && !hasConstant(cond) {
			o.fail("", fmt.Sprintf("after SetTimeRange #%d on %q the condition %s has the type-annotated references [%s], the original [%s]", k+1, c.text, printed, got, want), rp)
			return
		}
		// the printed condition reads back as the same condition
		o.checked()
		back, perr := influxql.ParseExpr(printed)
		if perr != nil || exprSexp(influxql.Reduce(back, nil)) != exprSexp(st.Condition) {
			o.fail("", fmt.Sprintf("after SetTimeRange #%d on %q the condition prints as %s, which reads back differently (%v)", k+1, c.text, printed, perr), rp)
			return
		}
		// the condition does not grow
		s := c18Stamp.ReplaceAllString(printed, "T")
		if k == 0 {
			shape = s
		} else if s != shape {
			o.fail("", fmt.Sprintf("SetTimeRange #%d on %q: the condition changed shape from %s to %s", k+1, c.text, shape, s), rp)
			return
		}
	}
	resp.close()
}

func propC18(o *out, r *rng, thorough bool) {
	g := &c18gen{r: r, g: &c10gen{r: r}}
	wins := func(n int) [][2]time.Time {
		var ws [][2]time.Time
		for i := 0; i < n; i++ {
			a, b := g.window()
			ws = append(ws, [2]time.Time{a, b})
		}
		return ws
	}
	tt := func(map[string]interface{}) bool { return true }
	// hand-picked: every way a bound is written, next to one kept predicate
	for _, tb := range []string{"time > 5", "time >= '2000-01-01T00:00:00Z'", "time < now()", "time > now() - 1h", "5 < time", "'2000-01-01T00:00:00Z' <= time", "now() - 1h < time", "now() > time",
		"TIME > 5", "Time <= 10s", "\"tİme\" > 5", "\"TİME\" < '2000-01-01T00:00:00Z'", "5 < \"Tİme\"", "\"time\" = 7", "time::tag > 5", "(time) > 5", "((time)) < now()", "5 < (time)", "time != 5", "time <> 5", "time > 5 AND time < 10", "(time > 5 AND time < 10)", "time > 1h + 1h"} {
		c18Seq(o, c18cond{text: tb, nonTime: tt, inClass: true}, wins(3), "bound alone")
		c18Seq(o, c18cond{text: tb + " AND host = 'a'", nonTime: func(t map[string]interface{}) bool { return t["host"] == "a" }, inClass: true}, wins(3), "bound AND predicate")
		c18Seq(o, c18cond{text: "host = 'a' AND " + tb, nonTime: func(t map[string]interface{}) bool { return t["host"] == "a" }, inClass: true}, wins(3), "predicate AND bound")
		c18Seq(o, c18cond{text: "(host = 'a' OR region = 'b') AND " + tb, nonTime: func(t map[string]interface{}) bool { return t["host"] == "a" || t["region"] == "b" }, inClass: true}, wins(3), "(OR) AND bound")
		c18Seq(o, c18cond{text: "abs(value) > 1 AND " + tb + " AND f(host) = 'x'"}, wins(3), "calls kept")
		o.nontrivial(tb)
	}
	// conditions that already look like the output of an earlier call (a window appended as two string bounds), with
	// further bounds of every spelling in front, behind and between: all of them go
	hostA := func(t map[string]interface{}) bool { return t["host"] == "a" }
	win := "time >= '2020-01-01T00:00:00Z' AND time < '2020-01-02T00:00:00Z'"
	for _, extra := range []string{"time <= now()", "time > 5", "'2019-01-01T00:00:00Z' < time", "time = 7", "(time < now())", "time >= '2019-01-01T00:00:00Z' AND time < '2019-06-01T00:00:00Z'"} {
		for _, text := range []string{"host = 'a' AND " + extra + " AND " + win, extra + " AND host = 'a' AND " + win, "host = 'a' AND " + win + " AND " + extra, extra + " AND " + win + " AND host = 'a'",
			"host = 'a' AND (" + extra + ") AND " + win, "(host = 'a' AND " + extra + ") AND " + win, "host = 'a' AND " + extra + " AND (" + win + ")", win + " AND host = 'a' AND " + win} {
			c18Seq(o, c18cond{text: text, nonTime: hostA, inClass: true}, wins(3), "window-shaped")
		}
	}
	for _, c := range []c18cond{
		{text: ""}, {text: "host = 'a'", nonTime: func(t map[string]interface{}) bool { return t["host"] == "a" }},
		{text: "host = 'a' OR region = 'b'", nonTime: func(t map[string]interface{}) bool { return t["host"] == "a" || t["region"] == "b" }},
		{text: "host = 'a' OR region = 'b' OR value > 2", nonTime: func(t map[string]interface{}) bool { return t["host"] == "a" || t["region"] == "b" || t["value"].(int64) > 2 }},
		{text: "host = 'a' AND region = 'b' OR value > 2", nonTime: func(t map[string]interface{}) bool { return t["host"] == "a" && t["region"] == "b" || t["value"].(int64) > 2 }},
		{text: "value > 2 OR host = 'a' AND region = 'b'", nonTime: func(t map[string]interface{}) bool { return t["value"].(int64) > 2 || t["host"] == "a" && t["region"] == "b" }},
		{text: "true", nonTime: tt}, {text: "false", nonTime: func(map[string]interface{}) bool { return false }},
		{text: "time + 1 > 5"}, {text: "f(time > 5) = 1"}, {text: "value > 2 AND now() > '2000-01-01T00:00:00Z'"},
	} {
		c.inClass = true
		c18Seq(o, c, wins(4), "no bound")
	}
	n := 1500
	if thorough {
		n = 100000
	}
	for i := 0; i < n; i++ {
		nt := 0
		var c c18cond
		if r.chance(1, 8) { // a top-level OR among non-time predicates
			at, ah := g.pred()
			bt, bh := g.pred()
			c = c18cond{text: at + " OR " + bt, inClass: true}
			if ah != nil && bh != nil {
				c.nonTime = func(m map[string]interface{}) bool { return ah(m) || bh(m) }
			}
		} else {
			t, h, ok := g.cond(r.intn(4), &nt)
			c = c18cond{text: t, inClass: true}
			if ok {
				c.nonTime = h
			}
		}
		c18Seq(o, c, wins(1+r.intn(4)), fmt.Sprintf("generated, %d bounds", nt))
		o.nontrivial(c.text)
		if i < 6 {
			o.sample(c.text)
		}
	}
}

var _ = big.NewInt

func init() {
	props["C18"] = propC18
	replayers["set_time_range"] = func(o *out, rp map[string]interface{}) {
		var ws [][2]time.Time
		for _, w := range strings.Split(rpStr(rp, "windows"), ",") {
			ab := strings.Split(w, "|")
			a, _ := time.Parse(time.RFC3339Nano, ab[0])
			b, _ := time.Parse(time.RFC3339Nano, ab[1])
			ws = append(ws, [2]time.Time{a, b})
		}
		fmt.Println("replay of", rpStr(rp, "text"), "- window exactness, printed form and growth are re-checked; the non-time semantics belong to the generator")
		c18Seq(o, c18cond{text: rpStr(rp, "text")}, ws, "replay")
	}
}
