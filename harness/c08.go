package main

import (
	"fmt"
	"math"
	"math/big"
	"strings"
	"time"

	"github.com/influxdata/influxql"
)

// C08: durations are parsed exactly or rejected; formatting is invertible.

type durUnit struct {
	name string
	ns   int64
}

var durUnits = []durUnit{
	{"ns", 1}, {"u", 1e3}, {"µ", 1e3}, {"ms", 1e6}, {"s", 1e9}, {"m", 60e9}, {"h", 3600e9}, {"d", 86400e9}, {"w", 604800e9},
}

// refDuration: the property's own reading of a spelling — optional '-', then
// one or more <digits><unit> components, summed exactly. ok=false: malformed.
func refDuration(s string) (sum *big.Int, ok bool) {
	rs := []rune(s)
	i := 0
	neg := false
	if len(rs) > 0 && rs[0] == '-' {
		neg = true
		i++
	}
	sum = new(big.Int)
	n := 0
	for i < len(rs) {
		st := i
		for i < len(rs) && rs[i] >= '0' && rs[i] <= '9' {
			i++
		}
		if i == st || i >= len(rs) {
			return nil, false
		}
		v, _ := new(big.Int).SetString(string(rs[st:i]), 10)
		var u int64
		switch rs[i] {
		case 'n':
			if i+1 < len(rs) && rs[i+1] == 's' {
				u = 1
				i++
			} else {
				return nil, false
			}
		case 'u', 'µ':
			u = 1e3
		case 'm':
			if i+1 < len(rs) && rs[i+1] == 's' {
				u = 1e6
				i++
			} else {
				u = 60e9
			}
		case 's':
			u = 1e9
		case 'h':
			u = 3600e9
		case 'd':
			u = 86400e9
		case 'w':
			u = 604800e9
		default:
			return nil, false
		}
		i++
		sum.Add(sum, v.Mul(v, big.NewInt(u)))
		n++
	}
	if n == 0 {
		return nil, false
	}
	if neg {
		sum.Neg(sum)
	}
	return sum, true
}

func c08Parse(o *out, s string, tag string) {
	o.count(tag)
	var d time.Duration
	var err error
	if pn := safely(func() { d, err = influxql.ParseDuration(s) }); pn != nil {
		o.checked()
		o.addCase("(7 "+textSexp(s)+")", "(2)", s)
		o.fail("", fmt.Sprintf("ParseDuration(%q) panics: %v", s, pn), map[string]interface{}{"op": "parse_duration", "text": s})
		return
	}
	resp := "(1)"
	if err == nil {
		resp = fmt.Sprintf("(0 %d)", int64(d))
	}
	o.addCase("(7 "+textSexp(s)+")", resp, s)
	o.checked()
	want, ok := refDuration(s)
	rp := map[string]interface{}{"op": "parse_duration", "text": s}
	switch {
	case !ok:
		if err == nil {
			o.fail("", fmt.Sprintf("ParseDuration(%q) = %d but the spelling is malformed", s, int64(d)), rp)
		}
	case !want.IsInt64():
		if err == nil {
			o.fail("", fmt.Sprintf("ParseDuration(%q) = %v: the exact total %s does not fit in 64-bit nanoseconds, expected an error", s, d, want), rp)
		}
	default:
		// a component whose own digits exceed int64 is rejected by ParseInt even if... the total cannot fit then either,
		// except when multiplied by 1ns and negative: "-9223372036854775808ns" (the single exempted value)
		if err != nil {
			if want.Int64() == math.MinInt64 {
				return
			}
			o.fail("", fmt.Sprintf("ParseDuration(%q) fails (%v) but the exact total %s fits", s, err, want), rp)
		} else if int64(d) != want.Int64() {
			o.fail("", fmt.Sprintf("ParseDuration(%q) = %d, exact total is %s", s, int64(d), want), rp)
		}
	}
}

func c08Format(o *out, d int64, tag string) {
	o.count(tag)
	s := influxql.FormatDuration(time.Duration(d))
	o.addCase(fmt.Sprintf("(8 %d)", d), textSexp(s), fmt.Sprintf("FormatDuration(%d)", d))
	o.checked()
	rp := map[string]interface{}{"op": "format_duration", "d": fmt.Sprint(d)}
	// largest unit that divides d; zero as 0s
	want := "0s"
	if d != 0 {
		for _, u := range []durUnit{{"w", 604800e9}, {"d", 86400e9}, {"h", 3600e9}, {"m", 60e9}, {"s", 1e9}, {"ms", 1e6}, {"u", 1e3}, {"ns", 1}} {
			if d%u.ns == 0 {
				want = fmt.Sprintf("%d%s", d/u.ns, u.name)
				break
			}
		}
	}
	if s != want {
		o.fail("", fmt.Sprintf("FormatDuration(%d) = %q, expected %q (largest dividing unit)", d, s, want), rp)
	}
	if d != math.MinInt64 {
		back, err := influxql.ParseDuration(s)
		if err != nil || int64(back) != d {
			o.fail("", fmt.Sprintf("ParseDuration(FormatDuration(%d) = %q) = %d, %v", d, s, int64(back), err), rp)
		}
	}
}

// duration literals inside statements must carry ParseDuration's value
func c08InStatement(o *out, lit string) {
	d, derr := influxql.ParseDuration(lit)
	templates := []struct {
		text string
		get  func(influxql.Statement) (int64, bool)
	}{
		{"SELECT mean(v) FROM m GROUP BY time(%s)", func(s influxql.Statement) (int64, bool) {
			sel := s.(*influxql.SelectStatement)
			c, ok := sel.Dimensions[0].Expr.(*influxql.Call)
			if !ok || len(c.Args) != 1 {
				return 0, false
			}
			dl, ok := c.Args[0].(*influxql.DurationLiteral)
			if !ok {
				return 0, false
			}
			return int64(dl.Val), true
		}},
		{"CREATE RETENTION POLICY p ON d DURATION %s REPLICATION 1", func(s influxql.Statement) (int64, bool) {
			return int64(s.(*influxql.CreateRetentionPolicyStatement).Duration), true
		}},
		{"CREATE RETENTION POLICY p ON d DURATION 1h REPLICATION 1 SHARD DURATION %s", func(s influxql.Statement) (int64, bool) {
			return int64(s.(*influxql.CreateRetentionPolicyStatement).ShardGroupDuration), true
		}},
		{"ALTER RETENTION POLICY p ON d DURATION %s", func(s influxql.Statement) (int64, bool) {
			return int64(*s.(*influxql.AlterRetentionPolicyStatement).Duration), true
		}},
		{"CREATE CONTINUOUS QUERY q ON d RESAMPLE EVERY %s BEGIN SELECT mean(v) INTO x FROM m GROUP BY time(1m) END", func(s influxql.Statement) (int64, bool) {
			return int64(s.(*influxql.CreateContinuousQueryStatement).ResampleEvery), true
		}},
		{"SELECT v FROM m WHERE time > now() - %s", func(s influxql.Statement) (int64, bool) {
			sel := s.(*influxql.SelectStatement)
			be := sel.Condition.(*influxql.BinaryExpr).RHS.(*influxql.BinaryExpr)
			dl, ok := be.RHS.(*influxql.DurationLiteral)
			if !ok {
				return 0, false
			}
			return int64(dl.Val), true
		}},
	}
	// a sign in front of a duration literal: +d is d, -d is its negation
	if derr == nil && int64(d) != math.MinInt64 {
		for _, sg := range []struct {
			sign string
			mul  int64
		}{{"+", 1}, {"-", -1}, {"+ ", 1}, {"- ", -1}} {
			text := "SELECT mean(v) FROM m GROUP BY time(1h, " + sg.sign + lit + ")"
			o.checked()
			rp := map[string]interface{}{"op": "duration_in_statement", "text": text, "lit": lit}
			st, _, pn := addParseStmtCase(o, text, nil)
			if pn != nil || st == nil {
				if pn != nil {
					o.fail("", fmt.Sprintf("%q panics: %v", text, pn), rp)
				}
				continue
			}
			c, ok := st.(*influxql.SelectStatement).Dimensions[0].Expr.(*influxql.Call)
			if !ok || len(c.Args) != 2 {
				continue
			}
			if dl, ok := c.Args[1].(*influxql.DurationLiteral); !ok || int64(dl.Val) != sg.mul*int64(d) {
				o.fail("", fmt.Sprintf("%q stores the offset %v, expected %d", text, c.Args[1], sg.mul*int64(d)), rp)
			}
		}
	}
	for _, t := range templates {
		text := fmt.Sprintf(t.text, lit)
		o.checked()
		st, err := influxql.ParseStatement(text)
		rp := map[string]interface{}{"op": "duration_in_statement", "text": text, "lit": lit}
		if derr != nil {
			if err == nil {
				if v, ok := t.get(st); ok {
					o.fail("", fmt.Sprintf("%q accepted with duration %d although ParseDuration(%q) fails", text, v, lit), rp)
				}
			}
			continue
		}
		if err != nil {
			if strings.Contains(text, "RESAMPLE") && d == 0 {
				continue // RESAMPLE EVERY 0s is rejected on purpose
			}
			o.fail("", fmt.Sprintf("%q rejected (%v) although ParseDuration(%q) = %d", text, err, lit, int64(d)), rp)
			continue
		}
		if v, ok := t.get(st); !ok || v != int64(d) {
			o.fail("", fmt.Sprintf("%q stores duration %d, ParseDuration(%q) = %d", text, v, lit, int64(d)), rp)
		}
	}
}

func propC08(o *out, r *rng, thorough bool) {
	// boundary magnitudes: within +-3 of MaxInt64/unit for every unit, alone, negated, and after a small first component
	for _, u := range durUnits {
		max := int64(math.MaxInt64) / u.ns
		for delta := int64(-3); delta <= 3; delta++ {
			m := new(big.Int).Add(big.NewInt(max), big.NewInt(delta))
			s := m.String() + u.name
			c08Parse(o, s, "boundary")
			c08Parse(o, "-"+s, "boundary-neg")
			c08Parse(o, "1ns"+s, "boundary-2comp")
			c08Parse(o, s+"1ns", "boundary-2comp")
			o.nontrivial(s)
		}
		// multiples that wrap back into the positive range
		for _, k := range []int64{2, 3, 4, 5, 8, 16} {
			m := new(big.Int).Mul(big.NewInt(max), big.NewInt(k))
			m.Add(m, big.NewInt(k))
			if m.IsInt64() {
				c08Parse(o, m.String()+u.name, "wrap")
				c08Parse(o, "-"+m.String()+u.name, "wrap-neg")
			}
		}
	}
	for _, w := range []string{"5124096h", "-5124096h", "106751d23h47m16s854ms775u807ns", "106751d23h47m16s854ms775u808ns", "9223372036854775807ns",
		"9223372036854775808ns", "-9223372036854775807ns", "-9223372036854775808ns", "15250w1d23h47m16s854ms775u807ns", "15251w", "2562047h47m16s854ms775u807ns",
		"", "-", "1", "s", "1x", "1n", "1nss", "1.5s", "1 s", "1s ", "+1s", "--1s", "1s-1s", "１s", "1µs", "1µ", "1us", "1mss", "1msm", "0s", "00000s", "0w0d", "1h1h", "9999999999999999999999s",
		// leading zeros are decimal digits, not a base prefix; a bare m after the two-byte µ; digits only
		"5\u0173", "1\u0168", "2\u0164", "3\u0177", "7\u0175", "1h30\u2173", "-4\U0001F468", "1\u0273", "1\u016d", "1\u026e\u0273", "5\u1e73", "h1", "s10", "h1m30", "-w1d1", "m", "ms5", "1h2", "1h m", "h", "1hh1", "µ1", "u1u", "1s2m3", "ns1ns", "d1h1", "010m", "0100ms", "1m08s", "08s", "09h", "007d", "0x10s", "0b1s", "0o7s", "1_0s", "1µ2m", "5µ1m", "7µ1m", "1µm", "µm", "1µ1µ1m", "3µ4ms", "1e3s", "+5m"} {
		c08Parse(o, w, "witness")
	}
	// lengths at which a fixed buffer would end: digits (leading zeros keep the value small), components, and both
	for _, n := range []int{15, 16, 17, 18, 19, 20, 21, 31, 32, 33, 63, 64, 65, 127, 128, 129, 255, 256, 257, 1023, 1024, 1025} {
		z := strings.Repeat("0", n)
		for _, u := range []string{"ns", "u", "µ", "ms", "s", "m", "h", "d", "w"} {
			c08Parse(o, z+"7"+u, "length")
			c08Parse(o, "-"+z+u, "length")
			c08Parse(o, "1"+u+z+"2ns", "length")
		}
		c08Parse(o, strings.Repeat("1ns", n), "length")
		c08Parse(o, strings.Repeat("1h1ns", n), "length")
		c08Parse(o, strings.Repeat("9", n)+"ns", "length")
	}
	n := 6000
	if thorough {
		n = 400000
	}
	for i := 0; i < n; i++ {
		var b strings.Builder
		if r.chance(1, 6) {
			b.WriteByte('-')
		}
		k := 1 + r.intn(4)
		for j := 0; j < k; j++ {
			u := pick(r, durUnits)
			var m int64
			switch r.intn(4) {
			case 0:
				m = int64(r.intn(100))
			case 1:
				m = int64(r.next() >> uint(1+r.intn(62)))
			case 2:
				m = int64(math.MaxInt64)/u.ns/int64(1+r.intn(k+1)) + int64(r.intn(7)) - 3
			default:
				m = int64(math.MaxInt64)/u.ns*int64(1+r.intn(6)) + int64(r.intn(7)) - 3
			}
			if m < 0 {
				m = -m
			}
			if r.chance(1, 10) {
				b.WriteString(strings.Repeat("0", 1+r.intn(3)))
			}
			fmt.Fprintf(&b, "%d%s", m, u.name)
		}
		s := b.String()
		if r.chance(1, 25) {
			s = s[:r.intn(len(s)+1)]
		}
		c08Parse(o, s, "random")
		o.nontrivial(s)
		o.sample(s)
	}
	// formatting: 64-bit boundary values, multiples of every unit, random
	fb := []int64{0, 1, -1, math.MaxInt64, math.MinInt64, math.MinInt64 + 1, math.MaxInt64 - 1}
	for _, u := range durUnits {
		for _, k := range []int64{1, -1, 2, 59, 999, 1001, math.MaxInt64 / u.ns, -(math.MaxInt64 / u.ns), math.MaxInt64/u.ns - 1} {
			fb = append(fb, k*u.ns)
		}
	}
	// a whole number of a unit plus or minus a remainder far below it (the difference a rounded computation loses)
	for _, u := range durUnits {
		for _, k := range []int64{1, 1000, 86400 * 200, 1 << 33, 9000000000, math.MaxInt64/u.ns - 2, math.MaxInt64 / u.ns / 3} {
			if k > math.MaxInt64/u.ns-1 || k < 1 {
				continue
			}
			for _, delta := range []int64{1, -1, 7, 999, 1000, 999999, 1000000, 999999999} {
				if delta >= u.ns && u.ns > 1 {
					continue
				}
				fb = append(fb, k*u.ns+delta, -(k*u.ns + delta))
			}
		}
	}
	for _, d := range fb {
		c08Format(o, d, "format-boundary")
	}
	for i := 0; i < n/2; i++ {
		d := int64(r.next())
		if r.chance(1, 2) {
			u := pick(r, durUnits)
			d = d / u.ns * u.ns
		}
		if r.chance(1, 3) {
			d >>= uint(r.intn(60))
		}
		c08Format(o, d, "format-random")
	}
	// the same spelling twice in one text, once under a minus sign: each occurrence is its own value
	for _, text := range []string{"SELECT mean(v) FROM m GROUP BY time(10m, -10m)", "SELECT v FROM m WHERE time > -30s; SELECT mean(v) FROM m GROUP BY time(30s)", "SELECT v FROM m WHERE d = 5m30s + -5m30s",
		"SELECT mean(v) FROM m GROUP BY time(1h, -15m); SELECT mean(v) FROM m GROUP BY time(15m)", "SELECT -1h, 1h, - 1h, +1h FROM m", "SELECT v FROM m WHERE a = -7 AND b = 7 AND c = -7 AND d = -1.5 AND e = 1.5"} {
		addParseQueryCase(o, text, nil)
		o.count("repeated-spelling")
		o.checked()
		q, err := influxql.ParseQuery(text)
		if err != nil {
			continue
		}
		for i, part := range strings.Split(text, ";") {
			alone, err := influxql.ParseStatement(part)
			if err != nil || i >= len(q.Statements) || stmtSexp(alone) != stmtSexp(q.Statements[i]) {
				o.fail("", fmt.Sprintf("statement %d of %q differs from parsing it alone: %v", i, text, q.Statements[i]), map[string]interface{}{"op": "duration_repeat", "text": text})
				break
			}
		}
	}
	for _, lit := range []string{"5M", "1H", "10S", "7U", "9NS", "2D", "3W", "5Ms", "1H30m", "1h30M", "1µS"} {
		for _, tmpl := range []string{"SELECT mean(v) FROM m GROUP BY time(%s)", "SELECT v FROM m WHERE time > now() - %s", "CREATE RETENTION POLICY p ON d DURATION %s REPLICATION 1", "SELECT %s FROM m"} {
			text := fmt.Sprintf(tmpl, lit)
			addParseStmtCase(o, text, nil)
			o.count("other-case-unit")
			o.checked()
			if _, derr := influxql.ParseDuration(lit); derr == nil {
				continue
			}
			st, err := influxql.ParseStatement(text)
			if err != nil {
				continue
			}
			found := false
			influxql.WalkFunc(st, func(n influxql.Node) {
				if _, ok := n.(*influxql.DurationLiteral); ok {
					found = true
				}
			})
			if rp, ok := st.(*influxql.CreateRetentionPolicyStatement); ok && rp.Duration != 0 {
				found = true
			}
			if found {
				o.fail("", fmt.Sprintf("%q is accepted with a duration although ParseDuration(%q) is an error", text, lit), map[string]interface{}{"op": "duration_case", "text": text})
			}
		}
	}
	for _, lit := range []string{"1h", "90m", "1h30m", "5124096h", "15251w", "2562047h47m16s854ms775u807ns", "106751d23h47m16s854ms775u808ns", "0s", "1ns", "3µ", "7u", "10ms", "1w2d"} {
		c08InStatement(o, lit)
	}
}

func init() { props["C08"] = propC08 }
