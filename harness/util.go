package main

import (
	"encoding/json"
	"fmt"
	"math/big"
	"os"
	"path/filepath"
	"sort"
	"strconv"
)

func bigMulAdd(a, m, c int64) string {
	x := new(big.Int).Mul(big.NewInt(a), big.NewInt(m))
	x.Add(x, big.NewInt(c))
	return x.String()
}

// ---- deterministic PRNG (splitmix64): every random choice derives from VERIF_SEED ----
type rng struct{ s uint64 }

func newRng(seed uint64) *rng { return &rng{s: seed*0x9E3779B97F4A7C15 + 0x1234567} }
func (r *rng) next() uint64 {
	r.s += 0x9E3779B97F4A7C15
	z := r.s
	z = (z ^ (z >> 30)) * 0xBF58476D1CE4E5B9
	z = (z ^ (z >> 27)) * 0x94D049BB133111EB
	return z ^ (z >> 31)
}
func (r *rng) intn(n int) int {
	if n <= 0 {
		return 0
	}
	return int(r.next() % uint64(n))
}
func (r *rng) chance(num, den int) bool { return r.intn(den) < num }
func pick[T any](r *rng, xs []T) T      { return xs[r.intn(len(xs))] }

// ---- output files of one harness run ----
type out struct {
	dir      string
	cases    *os.File // request \t expected-response \t description
	direct   *os.File // direct evaluation of the property on the implementation: failures
	ncases   int
	ndirect  int
	nfail    int
	distinct map[string]struct{}
	dist     map[string]int // input distribution
	samples  []string
	extra    map[string]interface{}
}

func newOut(dir string) *out {
	must(os.MkdirAll(dir, 0o755))
	c, err := os.Create(filepath.Join(dir, "cases.txt"))
	must(err)
	d, err := os.Create(filepath.Join(dir, "direct.txt"))
	must(err)
	return &out{dir: dir, cases: c, direct: d, distinct: map[string]struct{}{}, dist: map[string]int{}, extra: map[string]interface{}{}}
}

// addCase records one correspondence case: the model request, the response
// the implementation's behaviour corresponds to, and a human-readable input.
func (o *out) addCase(req, expected, desc string) { o.addCaseVM(req, expected, desc, true) }

// addCaseVM: vmSafe = the model consults no oracle on this case, so the
// in-Coq path (default oracles) may re-evaluate it.
func (o *out) addCaseVM(req, expected, desc string, vmSafe bool) {
	flag := "V"
	if !vmSafe {
		flag = "-"
	}
	fmt.Fprintf(o.cases, "%s\t%s\t%s\t%s\n", req, expected, oneLine(desc), flag)
	o.ncases++
}

// asciiNoFloat: no non-ASCII rune (unicode.ToLower oracle) and no '.' (strconv.ParseFloat oracle).
func asciiNoFloat(s string) bool {
	for i := 0; i < len(s); i++ {
		if s[i] >= 128 || s[i] == '.' {
			return false
		}
	}
	return true
}

// nontrivial counts a distinct non-trivial input (by the property's own rule).
func (o *out) nontrivial(key string) { o.distinct[key] = struct{}{} }
func (o *out) count(kind string)     { o.dist[kind]++ }
func (o *out) sample(s string) {
	if len(o.samples) < 12 {
		o.samples = append(o.samples, s)
	}
}

// checked records one direct evaluation of the property on the implementation.
func (o *out) checked() { o.ndirect++ }

// fail records a direct violation: class is the finding classifier id ("" if none matched).
func (o *out) fail(class, what string, replay map[string]interface{}) {
	o.nfail++
	replay["what"] = what
	replay["class"] = class
	j, _ := json.Marshal(replay)
	fmt.Fprintf(o.direct, "FAIL\t%s\t%s\t%s\n", class, oneLine(what), j)
}

func (o *out) finish() {
	o.cases.Close()
	o.direct.Close()
	keys := make([]string, 0, len(o.dist))
	for k := range o.dist {
		keys = append(keys, k)
	}
	sort.Strings(keys)
	st := map[string]interface{}{
		"cases": o.ncases, "direct_evaluations": o.ndirect, "direct_failures": o.nfail,
		"distinct_nontrivial": len(o.distinct), "distribution": o.dist, "samples": o.samples,
	}
	for k, v := range o.extra {
		st[k] = v
	}
	j, _ := json.MarshalIndent(st, "", " ")
	must(os.WriteFile(filepath.Join(o.dir, "stats.json"), j, 0o644))
}

// oneLine renders arbitrary bytes as one line of printable ASCII.
func oneLine(s string) string {
	q := strconv.QuoteToASCII(s)
	return q[1 : len(q)-1]
}

func must(err error) {
	if err != nil {
		panic(err)
	}
}
