package main

import (
	"fmt"
	"strings"

	"github.com/influxdata/influxql"
)

// C20: result column names are complete, stable and unambiguous.

func selectSexp(q *influxql.SelectStatement) string {
	var b sb
	b.selectStmt(q)
	return b.String()
}

var c20Exprs = []string{"a", "b", "a_1", "a_2", "b_1", "a_1_1", "mean(a)", "mean(b)", "max(a)", "mean", "top(a, 2)", "top(a, b, 2)", "top(a, b, a, 3)", "bottom(a, a_1, 1)", "top(a, 2, b)",
	"a + b", "a + a", "mean(a) + b", "(a)", "((a_1))", "(a + b)", "1", "'s'", "1 + 2", "a + 1", "count(*)", "*", "/re/", "top()", "bottom()", "f(a) + g(b)", "DISTINCT a", "time", "a::integer", "\"a\"", "\"a_1\"",
	// names that are not plain words: format directives, blanks, quotes, non-ASCII
	"\"usage%\"", "\"a%%\"", "\"%d\"", "\"%s_%d\"", "\"a b\"", "\"a\\\"b\"", "\"é\"", "mean(\"usage%\")", "\"usage%\" + 1", "top(\"100%\", \"%v\", 2)",
	// names that are "time" only to a reader who ignores case or parentheses: ordinary fields
	"\"Time\"", "TIME", "tIme", "(time)", "time::integer", "\"time \"", "time", "time"}
var c20Aliases = []string{"", "", "", "a", "b", "a_1", "a_2", "b_1", "mean", "time", "x", "top", "a_b", "mean_1", "_1", "a_1_1", "usage%", "%d", "a%%_1"}

func c20Names(q *influxql.SelectStatement) (names []string, pn interface{}) {
	defer func() { pn = recover() }()
	return q.ColumnNames(), nil
}

func c20One(o *out, text string, omitTime bool, timeAlias string, tag string) {
	st, err := influxql.ParseStatement(text)
	if err != nil {
		return
	}
	q := st.(*influxql.SelectStatement)
	q.OmitTime = omitTime
	q.TimeAlias = timeAlias
	before := selectSexp(q)
	names, pn := c20Names(q)
	o.count(tag)
	o.checked()
	rp := map[string]interface{}{"op": "column_names", "text": text, "omit": omitTime, "alias": timeAlias}
	if pn != nil {
		o.addCase("(15 "+before+")", "(2)", text)
		o.fail("", fmt.Sprintf("ColumnNames of %q panics: %v", text, pn), rp)
		return
	}
	var b sb
	b.open(); b.atom(0); b.sp(); b.texts(names); b.close()
	o.addCaseVM("(15 "+before+")", b.String(), text, asciiNoFloat(text))
	// shape
	extra := 0
	hasInto := q.Target != nil
	for _, f := range q.Fields {
		if c, ok := f.Expr.(*influxql.Call); ok && !hasInto && (c.Name == "top" || c.Name == "bottom") && len(c.Args) > 1 {
			for _, a := range c.Args[1:] {
				if _, ok := a.(*influxql.VarRef); ok {
					extra++
				}
			}
		}
	}
	off := 1
	if omitTime {
		off = 0
	}
	if len(names) != off+len(q.Fields)+extra {
		o.fail("", fmt.Sprintf("ColumnNames of %q has %d names, expected %d", text, len(names), off+len(q.Fields)+extra), rp)
		return
	}
	if !omitTime {
		want := "time"
		if timeAlias != "" {
			want = timeAlias
		}
		if names[0] != want {
			o.fail("", fmt.Sprintf("first column of %q is %q, expected %q", text, names[0], want), rp)
		}
	}
	// aliases verbatim at their positions; each top/bottom call followed by its tag arguments
	pos := off
	aliases := map[string]int{}
	distinctAliases := true
	for _, f := range q.Fields {
		if f.Alias != "" {
			if names[pos] != f.Alias {
				o.fail("", fmt.Sprintf("column %d of %q is %q, expected the alias %q", pos, text, names[pos], f.Alias), rp)
			}
			aliases[f.Alias]++
			if aliases[f.Alias] > 1 {
				distinctAliases = false
			}
		}
		pos++
		if c, ok := f.Expr.(*influxql.Call); ok && !hasInto && (c.Name == "top" || c.Name == "bottom") && len(c.Args) > 1 {
			for _, a := range c.Args[1:] {
				if _, ok := a.(*influxql.VarRef); ok {
					pos++
				}
			}
		}
	}
	if distinctAliases {
		seen := map[string]bool{}
		for _, n := range names[off:] {
			if seen[n] {
				o.fail("", fmt.Sprintf("ColumnNames of %q = %q repeats %q although the explicit aliases are distinct", text, names, n), rp)
				break
			}
			seen[n] = true
		}
	}
	// the usual pipeline: RewriteTimeFields takes the references to time (exactly that name) out of the field list and
	// records the alias; every other field stays, in order, and is named as before
	if timeAlias == "" && !omitTime {
		c := q.Clone()
		if pn := safely(func() { c.RewriteTimeFields() }); pn != nil {
			o.fail("", fmt.Sprintf("RewriteTimeFields of %q panics: %v", text, pn), rp)
		} else {
			isTime := func(f *influxql.Field) bool { v, ok := f.Expr.(*influxql.VarRef); return ok && v.Val == "time" }
			var keepB, keepA, removedAliases []string
			for _, f := range q.Fields {
				if !isTime(f) {
					keepB = append(keepB, f.String())
				} else {
					removedAliases = append(removedAliases, f.Alias)
				}
			}
			for _, f := range c.Fields {
				if !isTime(f) {
					keepA = append(keepA, f.String())
				}
			}
			o.checked()
			if strings.Join(keepA, "\x00") != strings.Join(keepB, "\x00") {
				o.fail("", fmt.Sprintf("RewriteTimeFields of %q leaves the fields %q; the fields that are not time were %q", text, keepA, keepB), rp)
			} else if len(c.Fields) == len(q.Fields) && c.TimeAlias != "" {
				o.fail("", fmt.Sprintf("RewriteTimeFields of %q removes nothing and sets the time alias %q", text, c.TimeAlias), rp)
			} else if c.TimeAlias != "" && !contains(removedAliases, c.TimeAlias) {
				o.fail("", fmt.Sprintf("RewriteTimeFields of %q sets the time alias %q, which no time field has", text, c.TimeAlias), rp)
			} else if cn, pn := c20Names(c); pn == nil {
				want := "time"
				if c.TimeAlias != "" {
					want = c.TimeAlias
				}
				if len(cn) != 1+len(c.Fields)+extra || cn[0] != want {
					o.fail("", fmt.Sprintf("after RewriteTimeFields, ColumnNames of %q is %q: expected %q first and %d names", text, cn, want, 1+len(c.Fields)+extra), rp)
				}
			}
		}
	}
	// pure function of the statement: same answer again, statement unchanged
	again, _ := c20Names(q)
	if strings.Join(again, "\x00") != strings.Join(names, "\x00") || selectSexp(q) != before {
		o.fail("", fmt.Sprintf("ColumnNames of %q is not a pure function of the statement", text), rp)
	}
	// ... of the statement as it is NOW: a statement that was asked before and is then changed (a field added, an alias
	// set, the time column switched off) answers like a statement that was changed the same way and never asked;
	// and its clone answers like itself
	change := func(s *influxql.SelectStatement) {
		s.Fields = append(s.Fields, &influxql.Field{Expr: &influxql.VarRef{Val: "a"}}, &influxql.Field{Expr: &influxql.Call{Name: "mean", Args: []influxql.Expr{&influxql.VarRef{Val: "zz"}}}, Alias: "a_1"})
		if len(s.Fields) > 2 {
			s.Fields[0] = &influxql.Field{Expr: s.Fields[0].Expr, Alias: "renamed"}
		}
		s.OmitTime = !s.OmitTime
	}
	if st2, err2 := influxql.ParseStatement(text); err2 == nil {
		fresh := st2.(*influxql.SelectStatement)
		fresh.OmitTime, fresh.TimeAlias = omitTime, timeAlias
		cl := q.Clone()
		change(q)
		change(fresh)
		change(cl)
		a, pa := c20Names(q)
		b, pb := c20Names(fresh)
		c, pc := c20Names(cl)
		o.checked()
		if pa == nil && pb == nil && pc == nil && (strings.Join(a, "\x00") != strings.Join(b, "\x00") || strings.Join(c, "\x00") != strings.Join(b, "\x00")) {
			o.fail("", fmt.Sprintf("after changing the fields of %q: a statement that was asked before answers %q, its clone %q, one that was never asked %q", text, a, c, b), rp)
		}
	}
}

func propC20(o *out, r *rng, thorough bool) {
	build := func(idx []int, al []int, into bool) string {
		var fs []string
		for i, k := range idx {
			f := c20Exprs[k]
			if a := c20Aliases[al[i]]; a != "" {
				f += " AS " + influxql.QuoteIdent(a)
			}
			fs = append(fs, f)
		}
		t := "SELECT " + strings.Join(fs, ", ")
		if into {
			t += " INTO tgt"
		}
		return t + " FROM m"
	}
	// exhaustive: all field lists of length <= 2 (thorough: 3) over a dense sub-pool, without aliases and with one alias
	pool := []int{0, 2, 3, 6, 9, 10, 11, 15, 21, 36, 37}
	maxLen := 2
	if thorough {
		maxLen = 3
	}
	var rec func(cur []int)
	rec = func(cur []int) {
		if len(cur) > 0 {
			al := make([]int, len(cur))
			c20One(o, build(cur, al, false), false, "", fmt.Sprintf("exhaustive:len=%d", len(cur)))
			for a := 3; a < 9; a++ {
				al[len(cur)-1] = a
				c20One(o, build(cur, al, false), false, "", fmt.Sprintf("exhaustive-alias:len=%d", len(cur)))
			}
		}
		if len(cur) == maxLen {
			return
		}
		for _, k := range pool {
			rec(append(append([]int(nil), cur...), k))
		}
	}
	rec(nil)
	for _, w := range []string{"SELECT time FROM m", "SELECT time AS ts FROM m", "SELECT time AS ts INTO dst FROM m", "SELECT time, time FROM m", "SELECT time AS a, time, v FROM m", "SELECT time, v, w FROM m", "SELECT v, time AS t, w FROM m"} {
		c20One(o, w, false, "", "time-field")
		c20One(o, w, true, "", "time-field")
	}
	// the time column's alias, verbatim: every spelling, next to fields with and without the same name
	for _, ta := range []string{"Time", "TIME", "tIme", "time", "t", "", "a", "time_1"} {
		for _, fs := range []string{"a", "a, \"time\"", "a AS \"time\", b AS \"Time\"", "mean(a), a", "top(a, b, 2)"} {
			for _, omit := range []bool{false, true} {
				c20One(o, "SELECT "+fs+" FROM m", omit, ta, "time-alias")
			}
		}
	}
	n := 4000
	if thorough {
		n = 300000
	}
	for i := 0; i < n; i++ {
		k := 1 + r.intn(7)
		idx := make([]int, k)
		al := make([]int, k)
		for j := range idx {
			idx[j] = r.intn(len(c20Exprs))
			al[j] = r.intn(len(c20Aliases))
		}
		text := build(idx, al, r.chance(1, 5))
		ta := ""
		if r.chance(1, 6) {
			ta = pick(r, []string{"t", "a", "time", "Time", "TIME", "tIme", "time ", "a_1"})
		}
		c20One(o, text, r.chance(1, 6), ta, "random")
		o.nontrivial(text)
		if i < 5 {
			o.sample(text)
		}
	}
}

func init() {
	props["C20"] = propC20
	replayers["column_names"] = func(o *out, rp map[string]interface{}) {
		omit, _ := rp["omit"].(bool)
		c20One(o, rpStr(rp, "text"), omit, rpStr(rp, "alias"), "replay")
	}
}

func contains(l []string, s string) bool {
	for _, x := range l {
		if x == s {
			return true
		}
	}
	return false
}
