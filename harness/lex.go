package main

import (
	"regexp"
	"strconv"
	"io"
	"bufio"
	"fmt"
	"strings"
	"unicode/utf8"

	"github.com/influxdata/influxql"
)

type tokrec struct {
	tok  influxql.Token
	pos  influxql.Pos
	lit  string
	endO int // folded runes consumed net of pushback after this token (extent end), measured through bufio
}

// foldCR: CRLF or a lone CR is one line break.
func foldCR(rs []rune) []rune {
	out := make([]rune, 0, len(rs))
	for i := 0; i < len(rs); i++ {
		if rs[i] == '\r' {
			out = append(out, '\n')
			if i+1 < len(rs) && rs[i+1] == '\n' {
				i++
			}
		} else {
			out = append(out, rs[i])
		}
	}
	return out
}

// scanAll runs Scanner.Scan to EOF. Extents are measured independently of
// positions: bytes the scanner took from its bufio.Reader, decoded, CR-folded,
// minus the runes it currently holds pushed back.
func scanAll(text string) (recs []tokrec, maxRunePush int, ok bool) {
	size := len(text) + 64
	if size < 4096 {
		size = 4096
	}
	br := bufio.NewReaderSize(strings.NewReader(text), size)
	s := influxql.NewScanner(br)
	influxql.VerifResetPushback()
	limit := utf8.RuneCountInString(text) + 2
	for i := 0; i < limit; i++ {
		tok, pos, lit := s.Scan()
		consumedBytes := len(text) - br.Buffered()
		if i == 0 && len(text) > 0 && br.Buffered() == 0 && tok == influxql.EOF {
			consumedBytes = len(text)
		}
		folded := len(foldCR([]rune(text[:consumedBytes])))
		recs = append(recs, tokrec{tok, pos, lit, folded - s.VerifPending()})
		if tok == influxql.EOF {
			_, rn := influxql.VerifMaxPushback()
			return recs, rn, true
		}
	}
	_, rn := influxql.VerifMaxPushback()
	return recs, rn, false
}

func scanResponse(recs []tokrec, maxRune int, terminated bool) string {
	var b sb
	b.open()
	b.open()
	for i, r := range recs {
		if i > 0 {
			b.sp()
		}
		b.open(); b.atom(int64(r.tok)); b.sp(); b.atom(int64(r.pos.Line)); b.sp(); b.atom(int64(r.pos.Char)); b.sp()
		b.text(r.lit); b.sp(); b.atom(int64(r.endO)); b.close()
	}
	b.close()
	b.sp(); b.atom(0); b.sp(); b.boolean(!terminated); b.sp(); b.boolean(maxRune <= 3)
	b.close()
	return b.String()
}

func textSexp(s string) string {
	var b sb
	b.text(s)
	return b.String()
}

// linecol of folded offset k: zero-based line and column.
func linecol(folded []rune, k int) influxql.Pos {
	line, col := 0, 0
	for i := 0; i < k && i < len(folded); i++ {
		if folded[i] == '\n' {
			line++
			col = 0
		} else {
			col++
		}
	}
	return influxql.Pos{Line: line, Char: col}
}

func isStringLike(t influxql.Token) bool {
	return t == influxql.STRING || t == influxql.BADSTRING || t == influxql.BADESCAPE
}

// lexOne: one correspondence case (op 4) plus the direct evaluation of C05:
// termination, tiling, positions.
func lexOne(o *out, text string, tag string, direct bool) {
	recs, maxRune, term := scanAll(text)
	o.addCase("(4 "+textSexp(text)+")", scanResponse(recs, maxRune, term), text)
	o.count(tag)
	if !direct {
		return
	}
	o.checked()
	rp := func() map[string]interface{} { return map[string]interface{}{"op": "scan", "text": text} }
	if !term {
		o.fail("", fmt.Sprintf("scanning %q does not reach EOF within |text|+2 tokens", text), rp())
		return
	}
	if strings.ContainsRune(text, 0) {
		return // C05 is stated for NUL-free text (finding C05-nul)
	}
	folded := foldCR([]rune(text))
	prev := 0
	for i, r := range recs {
		last := i == len(recs)-1
		if r.endO < prev || (!last && r.endO == prev) || r.endO > len(folded) {
			o.fail("", fmt.Sprintf("tokens do not tile %q: token %d (%s) spans [%d,%d)", text, i, r.tok, prev, r.endO), rp())
			return
		}
		// the token is the lexeme of its extent: scanning the extent on its own yields this one token and nothing else
		if !last && !strings.ContainsRune(string(folded[prev:r.endO]), '\r') {
			sub := string(folded[prev:r.endO])
			s2 := influxql.NewScanner(strings.NewReader(sub))
			tok2, _, lit2 := s2.Scan()
			tok3, _, _ := s2.Scan()
			if tok2 != r.tok || lit2 != r.lit || tok3 != influxql.EOF {
				o.fail("", fmt.Sprintf("token %d (%s %q) of %q spans %q, which on its own scans as %s %q followed by %s", i, r.tok, r.lit, text, sub, tok2, lit2, tok3), rp())
				return
			}
			// tokens whose spelling is determined by kind and literal cover exactly that spelling
			spell, fixed := "", false
			switch {
			case r.tok == influxql.WS || r.tok == influxql.INTEGER || r.tok == influxql.DURATIONVAL:
				spell, fixed = r.lit, true
			case r.tok == influxql.ILLEGAL && r.lit != "":
				spell, fixed = r.lit, true
			case r.tok == influxql.IDENT && !strings.Contains(sub, "\""):
				spell, fixed = r.lit, true
			case r.tok == influxql.NUMBER:
				spell, fixed = r.lit, !strings.HasSuffix(sub, ".") || sub == r.lit
			case r.tok != influxql.NEQ && r.lit == "" && (influxql.VerifIsOperator(r.tok) || r.tok == influxql.TRUE || r.tok == influxql.FALSE ||
				(r.tok >= influxql.LPAREN && r.tok <= influxql.DOT) || r.tok >= influxql.ALL):
				spell, fixed = r.tok.String(), true
			}
			if fixed && !strings.EqualFold(sub, spell) {
				o.fail("", fmt.Sprintf("token %d (%s %q) of %q covers %q, not its own spelling", i, r.tok, r.lit, text, sub), rp())
				return
			}
			// a block comment ends at the first */ after its opening
			if strings.HasPrefix(sub, "/*") {
				if k := strings.Index(sub[2:], "*/"); (k >= 0 && (k+4 != len(sub) || r.tok != influxql.COMMENT)) || (k < 0 && r.tok != influxql.ILLEGAL) {
					o.fail("", fmt.Sprintf("block comment token %d of %q spans %q (%s)", i, text, sub, r.tok), rp())
					return
				}
			}
		}
		want := linecol(folded, prev)
		if r.pos != want {
			class := ""
			if isStringLike(r.tok) {
				class = "C05-string-pos"
			} else if r.tok == influxql.EOF {
				class = "C05-eof-col"
			}
			o.fail(class, fmt.Sprintf("token %d (%s) of %q starts at line %d char %d but reports line %d char %d",
				i, r.tok, text, want.Line, want.Char, r.pos.Line, r.pos.Char), rp())
			if class == "" {
				return
			}
		}
		prev = r.endO
	}
	if prev != len(folded) {
		o.fail("", fmt.Sprintf("tokens of %q end at %d of %d runes", text, prev, len(folded)), rp())
	}
}

// class-representative alphabet for small-scope exhaustive lexing
var lexAlphabet = []rune{' ', '\t', '\n', '\r', 'a', 'z', 'A', 'n', 's', 'm', 'u', 'h', 'µ', '0', '9', '_', '"', '\'', '\\',
	'.', '$', '+', '-', '*', '/', '%', '&', '|', '^', '=', '!', '~', '<', '>', '(', ')', ',', ';', ':', 'é', 0xFFFD, 0x1F600, 0}

func lexExhaustive(o *out, maxLen int, direct bool) {
	var rec func(prefix []rune)
	rec = func(prefix []rune) {
		lexOne(o, string(prefix), fmt.Sprintf("exhaustive:len=%d", len(prefix)), direct)
		if len(prefix) == maxLen {
			return
		}
		for _, c := range lexAlphabet {
			rec(append(prefix, c))
		}
	}
	rec(nil)
}

var lexPieces = []string{
	"select", "SELECT", "From", "where", "and", "OR", "true", "FALSE", "a", "b1", "_x", "cpu_load", "\"q id\"", "\"a\\\"b\"", "\"nl\\n\"",
	"'str'", "'it\\'s'", "'a\\\\b'", "'bad\\q'", "'open", "\"open", "''", "\"\"", "12", "007", "1.5", ".5", "5.", "1.2.3", "10s", "1h30m", "3µ", "5ms", "9x9",
	"$p", "$", "$\"q\"", "$1", "+", "-", "*", "/", "%", "&", "|", "^", "=", "!=", "<>", "=~", "!~", "<", "<=", ">", ">=", "!", "(", ")", ",", ";", ":", "::", ".",
	"..", "-- line comment", "--", "/* block */", "/* open", "/**/", "/***/", "/* a * / b */", "/****/", "/*** x ***/", "/* x **/", "/*****/", " ", "  ", "\t", "\n", "\r\n", "\r", "\n\n", " \n ",
	"é", "日本", "\xff", "\xc3", "😀", "#", "@", "~", "`", "[", "]", "{", "}", "?",
	// runes a text layer might take for white space or drop: vertical tab, form feed, NEL, no-break space, em space,
	// ideographic space, line separator, byte order mark, zero width space
	"\v", "\f", "\u0085", "\u00a0", "\u2003", "\u3000", "\u2028", "\ufeff", "\u200b", "1s500µ", "2ms250µ",
	// spellings a lenient scanner might take for one token: exponents, a minus inside a name, a quoted part glued to a
	// bare one, comments without a blank behind the dashes
	"5M", "1H30m", "10S", "7U", "9NS", "2D", "3W", "5Ms", "1µS", "`bq`", "`a b`", "e", "E", "1e", "1e6", "1e+x", "2.5E-3", "7e+", "3.5e-)", "e+", "1E-", "b-c", "cpu-total", "x-1", "\"a\"b", "\"q\"\"r\"", "a\"b\"", "--c", "--1", "1--1", "/*/", "/*/*/", "/*/ x */", "0x1F", "1_000", "1.e5", ".e1",
}

func lexRandom(o *out, r *rng, n int, direct bool) {
	for i := 0; i < n; i++ {
		var b strings.Builder
		k := 1 + r.intn(10)
		for j := 0; j < k; j++ {
			b.WriteString(pick(r, lexPieces))
			if r.chance(1, 3) {
				b.WriteString(pick(r, []string{" ", "\n", "\r\n", "\t", "\r"}))
			}
		}
		t := b.String()
		if r.chance(1, 10) && len(t) > 0 { // truncate at a random byte offset
			t = t[:r.intn(len(t))]
		}
		lexOne(o, t, "random", direct)
		if j := strings.Count(t, "\n") + strings.Count(t, "\r"); j > 0 {
			o.nontrivial(t)
		}
		o.sample(t)
	}
}

// the token ring the parser sits on (bufScanner): any walk of Scan and Unscan with at most three tokens pushed back
// sees the tokens of the text in order - a pushed-back token comes back with its own position and literal, none is
// skipped, none comes twice.  The oracle is a cursor into the token list of a fresh Scanner.
func c05Ring(o *out, text string, r *rng) {
	if strings.ContainsRune(text, 0) {
		return
	}
	recs, _, term := scanAll(text)
	if !term || len(recs) == 0 {
		return
	}
	o.count("ring-walk")
	p := influxql.NewParser(strings.NewReader(text))
	cur, depth := 0, 0
	var ops []string
	steps := 4 + r.intn(3*len(recs)+4)
	for i := 0; i < steps; i++ {
		if depth < 3 && cur > 0 && (depth == 0 && r.chance(1, 3) || depth > 0 && r.chance(1, 2)) {
			p.Unscan()
			cur--
			depth++
			ops = append(ops, "U")
			continue
		}
		if cur >= len(recs) {
			break
		}
		tok, pos, lit := p.Scan()
		ops = append(ops, "S")
		want := recs[cur]
		o.checked()
		if tok != want.tok || pos != want.pos || lit != want.lit {
			o.fail("", fmt.Sprintf("Parser.Scan/Unscan walk %s on %q: step %d returns %s %q at %d:%d, token %d of the text is %s %q at %d:%d", strings.Join(ops, ""), text, i, tok, lit, pos.Line, pos.Char,
				cur, want.tok, want.lit, want.pos.Line, want.pos.Char), map[string]interface{}{"op": "ring_walk", "text": text})
			return
		}
		cur++
		if depth > 0 {
			depth--
		}
	}
}

// the scanner reads through a bufio.Reader: the tokens of a text must not depend on where the reader's buffer ends.
// The reference run gives the scanner the whole text in one buffer; the plain run lets NewScanner wrap a reader that
// hands out the text in pieces (io.Reader contract: any piece size), with CR, LF and multi-byte runes on the seams.
type chunkReader struct {
	s    string
	size int
}

func (c *chunkReader) Read(p []byte) (int, error) {
	if len(c.s) == 0 {
		return 0, io.EOF
	}
	n := c.size
	if n > len(c.s) {
		n = len(c.s)
	}
	if n > len(p) {
		n = len(p)
	}
	copy(p, c.s[:n])
	c.s = c.s[n:]
	return n, nil
}

func c05ReaderBoundaries(o *out, r *rng) {
	run := func(text string, rd io.Reader, what string) {
		ref, _, ok := scanAll(text)
		if !ok {
			return
		}
		o.count("reader-boundary")
		o.checked()
		s := influxql.NewScanner(rd)
		for i, want := range ref {
			tok, pos, lit := s.Scan()
			if tok != want.tok || pos != want.pos || lit != want.lit {
				o.fail("", fmt.Sprintf("token %d of a %d-byte text read %s is %s %q at %d:%d, read from one buffer it is %s %q at %d:%d", i, len(text), what, tok, lit, pos.Line, pos.Char,
					want.tok, want.lit, want.pos.Line, want.pos.Char), map[string]interface{}{"op": "reader_boundary", "text": text, "what": what})
				return
			}
		}
	}
	for _, seam := range []int{4096, 8192} {
		for _, piece := range []string{"\r\n", "\r", "\n", "\r\r\n", "é", "日", "'a\r\nb'", "-- c\r\nx", "/* \r\n */", "\r\n\r\n"} {
			for off := -3; off <= 1; off++ {
				pad := seam + off - 9
				text := "SELECT a " + strings.Repeat("x", pad) + piece + " FROM m WHERE b = 1\r\nAND c = 'z'"
				run(text, strings.NewReader(text), "through the scanner's own 4096-byte buffer")
			}
		}
	}
	for i := 0; i < 60; i++ {
		var b strings.Builder
		for j := 0; j < 4+r.intn(12); j++ {
			b.WriteString(pick(r, lexPieces))
			b.WriteString(pick(r, []string{" ", "\r\n", "\r", "\n", ""}))
		}
		text := b.String()
		if strings.ContainsRune(text, 0) {
			continue
		}
		for _, size := range []int{1, 2, 3, 7} {
			run(text, &chunkReader{text, size}, fmt.Sprintf("in pieces of %d bytes", size))
		}
	}
}

// positions outside Scan: the REGEX token of ScanRegex, and parse errors that carry no token at all
func c05RegexAndErrorPositions(o *out) {
	for _, prefix := range []string{"", "x ", "a =~ ", "a =~\n", "  ", "a\r\n=~ ", "f(", "'s' "} {
		for _, re := range []string{"/ab c/", "/a\\/b/", "/open", "/a\nb/"} {
			text := prefix + re
			s := influxql.NewScanner(strings.NewReader(text))
			recs, _, _ := scanAll(prefix)
			for i := 0; i+1 < len(recs); i++ { // the tokens of the prefix, without its EOF
				s.Scan()
			}
			o.count("regex-position")
			o.checked()
			tok, pos, _ := s.ScanRegex()
			want := linecol(foldCR([]rune(text)), len(foldCR([]rune(prefix))))
			if pos != want {
				o.fail("C05-regex-pos", fmt.Sprintf("ScanRegex behind %q: the %s token starts at line %d char %d but reports line %d char %d", prefix, tok, want.Line, want.Char, pos.Line, pos.Char),
					map[string]interface{}{"op": "regex_pos", "text": text})
			}
		}
	}
	for _, text := range []string{"SELECT v FROM a.b.c.d", "  SELECT v\nFROM a.b.c.d", "DELETE FROM foo..myseries", "DROP SERIES FROM \"foo\".myseries", "SELECT v FROM m;\nDELETE FROM foo..myseries"} {
		o.count("error-position")
		o.checked()
		_, err := influxql.ParseQuery(text)
		pe, ok := err.(*influxql.ParseError)
		if ok && pe.Message != "" && pe.Pos == (influxql.Pos{}) {
			o.fail("C05-error-without-position", fmt.Sprintf("ParseQuery(%q): %q - the error carries no position and prints line 1, char 1", text, pe.Error()), map[string]interface{}{"op": "error_pos", "text": text})
		}
	}
}

func propC05(o *out, r *rng, thorough bool) {
	maxLen := 3
	n := 6000
	if thorough {
		maxLen = 4
		n = 300000
	}
	lexExhaustive(o, maxLen, true)
	o.extra["exhaustive_text_length"] = maxLen
	o.extra["alphabet"] = len(lexAlphabet)
	lexRandom(o, r, n, true)
	for _, w := range []string{"x 'a'", "x", "a = 'b'", "\"x\"", "x\n", "f /* c", "\ufeffSELECT a", "\ufeff x", "\ufeff", "\ufeff\ufeffa", "a\ufeffb", "\ufeff'a'", "\u00a0a", "a\vb", "a\u0085b", "a\u3000b"} {
		lexOne(o, w, "witness", true)
	}
	c05RegexAndErrorPositions(o)
	c05ReaderBoundaries(o, r)
	c05EscapesAndRuns(o)
	c05BufferSeams(o)
	c05SameTokenElsewhere(o)
	c05HistoryIndependence(o, r)
	// walks over the token ring, on statements and on random token soups; every depth of pushback up to three
	walks := 400
	if thorough {
		walks = 40000
	}
	for _, w := range []string{"a b c d e f", "SELECT mean(v) FROM m WHERE x > 1 GROUP BY time(1m)", "a,b,c,d", "1 2 3 4 5", "'a' 'b' 'c' 'd'", "CREATE CONTINUOUS QUERY cq ON db BEGIN SELECT count(value) INTO out FROM cpu END"} {
		for k := 0; k < 20; k++ {
			c05Ring(o, w, r)
		}
	}
	for i := 0; i < walks; i++ {
		var b strings.Builder
		for j := 0; j < 3+r.intn(8); j++ {
			b.WriteString(pick(r, lexPieces))
			b.WriteString(pick(r, []string{" ", "", "\n", " "}))
		}
		c05Ring(o, b.String(), r)
	}
}

func init() {
	props["C05"] = propC05
	replayers["ring_walk"] = func(o *out, rp map[string]interface{}) {
		for seed := uint64(1); seed < 200; seed++ {
			c05Ring(o, rpStr(rp, "text"), newRng(seed))
		}
	}
}

// every backslash escape inside both kinds of quotes (which ones exist is part of the token language), and long runs
// of one kind of rune: a run of blanks or digits or letters is ONE token however long it is
// c05BufferSeams: a block comment, a string, a regular expression and a line comment whose LAST characters fall on
// every offset around the 4096- and 8192-byte seams of the scanner's reader; inputs beyond a megabyte end where they end
func c05BufferSeams(o *out) {
	for _, seam := range []int{4096, 8192} {
		for off := -6; off <= 2; off++ {
			for _, form := range []string{"SELECT x /*%s*/ FROM m", "SELECT x /*%s**/ FROM m", "SELECT 'a%s' FROM m", "SELECT x FROM m WHERE h =~ /a%s\\// AND b", "SELECT x --%s\r\nFROM m", "SELECT \"%s\"\"b\" FROM m"} {
				pad := seam + off - strings.Index(form, "%s")
				lexOne(o, fmt.Sprintf(form, strings.Repeat("c", pad)), "buffer-seam", true)
			}
		}
	}
	for _, n := range []int{1<<20 - 3, 1 << 20, 1<<20 + 5, 3 << 20} {
		for _, form := range []string{"SELECT%svalue", "x --%s\ny", "'%s' z"} {
			filler := strings.Repeat(" ", n)
			if !strings.HasPrefix(form, "SELECT") {
				filler = strings.Repeat("c", n)
			}
			text := fmt.Sprintf(form, filler)
			o.count("megabyte")
			o.checked()
			s := influxql.NewScanner(strings.NewReader(text))
			var toks []influxql.Token
			total := 0
			for i := 0; i < 10; i++ {
				tok, _, lit := s.Scan()
				toks = append(toks, tok)
				total += len(lit)
				if tok == influxql.EOF {
					break
				}
			}
			want := map[string][]influxql.Token{"SELECT%svalue": {influxql.SELECT, influxql.WS, influxql.IDENT, influxql.EOF}, "x --%s\ny": {influxql.IDENT, influxql.WS, influxql.COMMENT, influxql.IDENT, influxql.EOF},
				"'%s' z": {influxql.STRING, influxql.WS, influxql.IDENT, influxql.EOF}}[form]
			if fmt.Sprint(toks) != fmt.Sprint(want) || (total < n && !strings.Contains(form, "--")) {
				o.fail("", fmt.Sprintf("a text of %d bytes (%s) scans as %v with %d bytes of literals, expected %v", len(text), strings.Replace(form, "%s", "...", 1), toks, total, want),
					map[string]interface{}{"op": "megabyte", "text": form, "n": n})
			}
		}
	}
}

// c05SameTokenElsewhere: the position in an error message is the position in THIS text: the same offending token
// (an invalid regular expression, an unknown keyword, a bad string) moved right by k columns or down by k lines is
// reported k columns to the right or k lines further down - whatever was parsed before
var c05CharRe = regexp.MustCompile(`line (\d+), char (\d+)`)

func c05SameTokenElsewhere(o *out) {
	pos := func(text string) (int, int, bool) {
		_, err := influxql.ParseStatement(text)
		if err == nil {
			return 0, 0, false
		}
		m := c05CharRe.FindStringSubmatch(err.Error())
		if m == nil {
			return 0, 0, false
		}
		l, _ := strconv.Atoi(m[1])
		c, _ := strconv.Atoi(m[2])
		return l, c, true
	}
	for _, form := range []string{"SELECT v FROM m WHERE h%s =~ /(/", "SELECT v%s FROM /[/", "SELECT v%s FRM m", "SELECT v FROM m WHERE x%s = 'open", "SELECT v FROM m WHERE f(a%s, /(?P</)", "DROP%s BLARGH x", "SELECT v FROM m GROUP BY%s /(/"} {
		l0, c0, ok := pos(fmt.Sprintf(form, ""))
		if !ok {
			continue
		}
		for k := 1; k <= 6; k++ {
			o.count("same-token-elsewhere")
			o.checked()
			l, c, ok := pos(fmt.Sprintf(form, strings.Repeat(" ", k)))
			if !ok || l != l0 || c != c0+k {
				o.fail("", fmt.Sprintf("%q: the offending token moved %d columns to the right and is reported at line %d, char %d (unmoved: line %d, char %d)", fmt.Sprintf(form, strings.Repeat(" ", k)), k, l, c, l0, c0),
					map[string]interface{}{"op": "token_elsewhere", "text": form, "k": k})
			}
			l, c, ok = pos(strings.Repeat("\n", k) + fmt.Sprintf(form, ""))
			if !ok || l != l0+k || c != c0 {
				o.fail("", fmt.Sprintf("%q moved %d lines down is reported at line %d, char %d (unmoved: line %d, char %d)", fmt.Sprintf(form, ""), k, l, c, l0, c0),
					map[string]interface{}{"op": "token_elsewhere", "text": form, "k": -k})
			}
		}
	}
}

func c05EscapesAndRuns(o *out) {
	for c := rune(1); c < 0x180; c++ {
		if c == 0x80 {
			c = 0xa0
		}
		for _, q := range []string{"'", "\""} {
			lexOne(o, "x "+q+"a\\"+string(c)+"b"+q+" y", "escape", true)
			lexOne(o, q+"\\"+string(c)+q, "escape", true)
		}
	}
	for _, n := range []int{63, 64, 65, 66, 127, 128, 129, 255, 256, 257, 1000, 4095, 4096, 4097} {
		for _, unit := range []string{" ", "\t", "\n", "\r\n", " \n", "a", "9", "_", "é"} {
			run := strings.Repeat(unit, n)
			lexOne(o, "x"+run+"/re/ y", "long-run", true)
			lexOne(o, run+"'s'", "long-run", true)
			lexOne(o, "\""+run+"\" "+run, "long-run", true)
		}
	}
}

// the same text gives the same tokens, positions and error messages whenever it is parsed: first or after any
// other text, through the package-level helpers or through a parser made for it (nothing is carried from one
// parse to the next)
func c05HistoryIndependence(o *out, r *rng) {
	texts := []string{"'cpu' value", "\"bad", "'open", "SELECT", "x 'a'", "'a\\qb' x", "\"q\" 'v' z", "SELECT v FROM m WHERE", "\n\n  'late'", "a\n'b", "1.5.5", "SELECT * FROM cpu\nWHERE x = 'y'\nAND", "", " ", "'", "\"",
		"f('x'", "$", "SELECT 'a' FROM 'b'", "DROP 'x'", "/* c */ 'x'", "-- c\n'x'",
		"SELECT v FROM m WHERE h =~ /(/", "SELECT v FROM /(/", "SELECT v\nFROM m\nWHERE h !~ /(/ AND x = 1", "SELECT f(/(/) FROM m", "      SELECT v FROM m GROUP BY /(/", "SELECT v FROM m WHERE a =~ /[/ OR b =~ /(/",
		"value > $threshold", "f($x) + 1", "$\"multi word\" + 1", "SELECT \"caf\xe9\xe8\" FRM cpu", "\xff\xfe\xfd x 'open", "a \xc3\xc3\xc3 'b' c)", "SELECT v\r\rFROM\rm WHERE"}
	// more distinct regular expressions than any small cache holds, the first ones again at the end
	for i := 0; i < 150; i++ {
		texts = append(texts, fmt.Sprintf("SELECT v FROM m WHERE h =~ /^host%d$/ AND g !~ /x%d/", i, i*7))
	}
	for i := 0; i < 40; i++ {
		var b strings.Builder
		for j := 0; j < 1+r.intn(5); j++ {
			b.WriteString(pick(r, lexPieces))
			b.WriteString(pick(r, []string{" ", "\n", ""}))
		}
		texts = append(texts, b.String())
	}
	render := func(t string, helper bool) string {
		var st influxql.Statement
		var e influxql.Expr
		var q *influxql.Query
		var e1, e2, e3 error
		pn := safely(func() {
			if helper {
				st, e1 = influxql.ParseStatement(t)
				e, e2 = influxql.ParseExpr(t)
				q, e3 = influxql.ParseQuery(t)
			} else {
				st, e1 = influxql.NewParser(strings.NewReader(t)).ParseStatement()
				e, e2 = influxql.NewParser(strings.NewReader(t)).ParseExpr()
				q, e3 = influxql.NewParser(strings.NewReader(t)).ParseQuery()
			}
		})
		out := fmt.Sprintf("panic=%v | %v | %v | %v", pn, e1, e2, e3)
		if e1 == nil && st != nil {
			out += " | " + st.String()
		}
		if e2 == nil && e != nil {
			out += " | " + e.String()
		}
		if e3 == nil && q != nil {
			out += " | " + q.String()
		}
		return out
	}
	first := map[string]string{}
	for _, t := range texts {
		first[t] = render(t, true)
	}
	check := func(t string, helper bool, what string) {
		o.count("history")
		o.checked()
		if got := render(t, helper); got != first[t] {
			o.fail("", fmt.Sprintf("parsing %q %s gives %s; parsed earlier in this process it gave %s", t, what, got, first[t]),
				map[string]interface{}{"op": "history", "text": t})
		}
	}
	for i := len(texts) - 1; i >= 0; i-- {
		check(texts[i], true, "again, after other texts")
	}
	for _, t := range texts {
		check(t, false, "with a parser of its own")
	}
	for i := 0; i < 200; i++ {
		a, b := pick(r, texts), pick(r, texts)
		render(a, true)
		check(b, true, fmt.Sprintf("directly after %q", a))
	}
}
