package main

// Grammar-derived generator: builds a statement text in a random legal
// spelling (keyword case, optional quoting, whitespace) TOGETHER WITH the AST
// the text denotes, written down independently of the parser.

import (
	"fmt"
	"math"
	"regexp"
	"strconv"
	"strings"
	"time"

	"github.com/influxdata/influxql"
)

type lexeme struct {
	s    string
	glue bool // must follow the previous lexeme with nothing in between
	gap  bool // a whitespace gap is REQUIRED before this lexeme
}

type gen struct {
	r      *rng
	plain  bool // single spaces, upper-case keywords, quote only when needed
	odd    bool // also emit forms a later validation stage would reject (odd argument counts and kinds); no AST is promised
	toks   []lexeme
	nogaps bool
	wide   bool // with plain: one space at EVERY boundary where whitespace is allowed (before commas, inside parentheses, ...)
	gaps   []int // byte offsets (in the last joined text) of whitespace gaps: start,end pairs
}

func (g *gen) emit(s string)      { g.toks = append(g.toks, lexeme{s: s}) }
func (g *gen) emitGlued(s string) { g.toks = append(g.toks, lexeme{s: s, glue: true}) }
func (g *gen) emitGap(s string)   { g.toks = append(g.toks, lexeme{s: s, gap: true}) }

// afterDot: the segment behind a dot of a segmented name. The parser skips whitespace there (db. rp. m), so the
// wide layout and some of the random layouts put a gap behind the dot.
func (g *gen) afterDot(n string) {
	if g.wide || (!g.plain && g.r.chance(1, 5)) {
		g.emit(g.identSpelling(n))
		return
	}
	g.emitGlued(g.identSpelling(n))
}

func (g *gen) kw(w string) {
	if g.plain || g.r.chance(1, 2) {
		g.emit(w)
		return
	}
	b := []byte(strings.ToLower(w))
	if g.r.chance(1, 2) {
		for i := range b {
			if g.r.chance(1, 2) && b[i] >= 'a' && b[i] <= 'z' {
				b[i] -= 32
			}
		}
	}
	g.emit(string(b))
}

var wsChoices = []string{" ", " ", "  ", "\t", "\n", "\r\n", " \n\t ", "\r",
	// empty lines under every line-end convention, and mixtures of them
	"\r\n\r\n", "\r\r", "\n\r\n\r", "\r\n\r", "\n\n", " \r\n \r\n\t"}

func wordyEnd(s string) bool {
	if s == "" {
		return false
	}
	c := s[len(s)-1]
	return c == '_' || c >= '0' && c <= '9' || c >= 'a' && c <= 'z' || c >= 'A' && c <= 'Z' || c >= 128 || c == '.' || c == '$'
}
func wordyStart(s string) bool {
	if s == "" {
		return false
	}
	c := s[0]
	return c == '_' || c >= '0' && c <= '9' || c >= 'a' && c <= 'z' || c >= 'A' && c <= 'Z' || c >= 128 || c == '.' || c == '$'
}

// needGap: the two lexemes would lex differently if written adjacently.
func needGap(a, b string) bool {
	if a == "" || b == "" {
		return false
	}
	if wordyEnd(a) && wordyStart(b) {
		return true
	}
	la, fb := a[len(a)-1], b[0]
	switch {
	case la == '-' && fb == '-', la == '/' && fb == '*', la == '<' && (fb == '>' || fb == '='), la == '>' && fb == '=',
		la == '=' && fb == '~', la == '!' && (fb == '=' || fb == '~'), la == ':' && fb == ':', la == '=' && fb == '=':
		return true
	case la == '/' && fb == '/', la == '*' && fb == '/':
		return true
	case wordyEnd(a) && fb == '"', la == '"' && (wordyStart(b) || fb == '"'): // identifier pieces concatenate
		return true
	case la == '\'' && fb == '\'':
		return false
	}
	return false
}

// join renders the lexemes, choosing whitespace; records the gaps.
func (g *gen) join() string {
	var b strings.Builder
	g.gaps = g.gaps[:0]
	for i, t := range g.toks {
		if i > 0 && !t.glue {
			prev := g.toks[i-1].s
			req := t.gap || needGap(prev, t.s)
			w := ""
			if g.plain {
				// canonical layout: one space except before , ) and after (
				if req || g.wide || !(t.s == "," || t.s == ")" || prev == "(" || t.s == ";") {
					w = " "
				}
			} else if req || g.r.chance(2, 3) {
				w = pick(g.r, wsChoices)
			}
			if w != "" {
				g.gaps = append(g.gaps, b.Len(), b.Len()+len(w))
			}
			b.WriteString(w)
		}
		b.WriteString(t.s)
	}
	g.toks = g.toks[:0]
	return b.String()
}

// ---- names ----
var plainNames = []string{"cpu", "mem", "value", "host", "region", "usage_idle", "x", "y1", "_t", "db0", "rp0", "m", "Load", "aB"}
var oddNames = []string{"select", "FROM", "time", "my db", "a.b", "q\"uote", "back\\slash", "1abc", "héllo", "日本", "tab\there", "new\nline", "with'single", "a-b", "", "ALL", "key", "😀", "x;y", "/re/", "$p", "--c", "duration", "inf",
	// format directives, invisible and unusual code points, reserved system names
	"usage%", "a%%", "%d", "%s%v", "\uFEFFbom", "a\uFEFFb", "nb\u00a0sp", "ls\u2028x", "zw\u200bx", "\uFFFD", "_series", "_fieldKeys", "_measurements", "_tagKeys", "_name",
	// words the scanner reads as tokens that are not in the keyword block: literals and operators
	"true", "False", "and", "OR", "Time", "TIME", "now", "now()",
	// letters whose lower-case form is longer in UTF-8 than they are (U+023A, U+023E: two bytes become three), in names of
	// every length up to a few machine words
	"a^b", "x[1]", "a`b", "p\\q", "a]", "^", "Ⱥ", "ȺȺȺȺȺȺ", "ȾȺȾȺȾȺȾȺ", "aȺȺȺȺȺȺȺ", "ȺȺȺȺȺȺȺȺȺȺȺȺȺȺȺȺ", "İİİİİİİİ", "KKKKKKKK"}

func (g *gen) name() string {
	if g.r.chance(3, 4) {
		return pick(g.r, plainNames)
	}
	// (the empty name is a name: written "")
	return pick(g.r, oddNames)
}

func quoteIdentAlways(n string) string {
	return `"` + strings.NewReplacer("\n", `\n`, `\`, `\\`, `"`, `\"`).Replace(n) + `"`
}

// ident spells one identifier: quoted when it must be, otherwise at random.
func (g *gen) identSpelling(n string) string {
	if n == "" || influxql.IdentNeedsQuotes(n) || (!g.plain && g.r.chance(1, 4)) {
		q := quoteIdentAlways(n)
		if !g.plain && g.r.chance(1, 3) { // the other quote may be written escaped as well: same value
			q = strings.Replace(q, "'", `\'`, -1)
		}
		return q
	}
	return n
}
func (g *gen) ident(n string) { g.emit(g.identSpelling(n)) }

func (g *gen) str(s string) {
	lit := "'" + strings.NewReplacer("\n", `\n`, `\`, `\\`, `'`, `\'`).Replace(s) + "'"
	if !g.plain && g.r.chance(1, 3) { // the other quote may be written escaped as well: same value
		lit = strings.Replace(lit, `"`, `\"`, -1)
	}
	g.emit(lit)
}

var strPool = []string{"server01", "us-west", "", "it's", "a\\b", "line\nbreak", "\"dq\"", "2000-01-01T00:00:00Z", "héllo", "x;DROP", "--", "/*", "日本",
	"\uFEFF", "a\uFEFFb", "\uFFFD", "nb\u00a0sp", "ls\u2028\u2029", "zw\u200b", "%d%s", "100%", "2000-13-01", "2000-02-30T00:00:00Z", "2000-01-01 00:00:61", "2000-01-01T00:00:00+02:00"}

// ---- expressions ----
var rePool = []string{"cpu.*", "^a$", "a/b", "^(us|eu)-", "[a-z]+\\d", "", "x y", "é", "^((?i)abc)$", "^[^\\s\\S]$", "a\\\\b", "^(?i:x)y$", "a\\\\/b", "c:\\\\/tmp", "\\\\\\\\/"}

func (g *gen) regexLit() *influxql.RegexLiteral {
	p := pick(g.r, rePool)
	g.emit("/" + strings.Replace(p, "/", `\/`, -1) + "/")
	return &influxql.RegexLiteral{Val: regexp.MustCompile(p)}
}

type durSpell struct {
	s string
	d time.Duration
}

var durPool = []durSpell{{"10s", 10 * time.Second}, {"1h30m", 90 * time.Minute}, {"5ms", 5 * time.Millisecond}, {"7u", 7 * time.Microsecond}, {"3µ", 3 * time.Microsecond},
	{"1ns", 1}, {"2w", 14 * 24 * time.Hour}, {"1d", 24 * time.Hour}, {"0s", 0}, {"90m", 90 * time.Minute}, {"1w2d3h4m5s6ms7u8ns", 9*24*time.Hour + 3*time.Hour + 4*time.Minute + 5*time.Second + 6*time.Millisecond + 7*time.Microsecond + 8},
	// the largest whole number of each unit: written in a smaller unit, printed in the larger one
	{"106750d", 106750 * 24 * time.Hour}, {"153722820m", 153722820 * time.Minute}, {"2562047h", 2562047 * time.Hour}, {"9223372036s", 9223372036 * time.Second},
	{"010m", 10 * time.Minute}, {"1m08s", 68 * time.Second},
	// the micro sign in a later component, every unit in a later component
	{"1s500µ", time.Second + 500*time.Microsecond}, {"2ms250µ", 2*time.Millisecond + 250*time.Microsecond}, {"1h30µ", time.Hour + 30*time.Microsecond}, {"1µ1u1ns", 2*time.Microsecond + 1},
	{"1w1d1h1m1s1ms1µ1ns", 8*24*time.Hour + time.Hour + time.Minute + time.Second + time.Millisecond + time.Microsecond + 1}}

func (g *gen) varRef() *influxql.VarRef {
	n := 1
	if g.r.chance(1, 6) {
		n = 2 + g.r.intn(2)
	}
	segs := make([]string, n)
	for i := range segs {
		segs[i] = g.name()
		if i == 0 {
			g.ident(segs[i])
		} else {
			g.emitGlued(".")
			g.afterDot(segs[i])
		}
	}
	v := &influxql.VarRef{Val: strings.Join(segs, ".")}
	if g.r.chance(1, 6) {
		types := []struct {
			s string
			t influxql.DataType
		}{{"float", influxql.Float}, {"integer", influxql.Integer}, {"unsigned", influxql.Unsigned}, {"string", influxql.String}, {"boolean", influxql.Boolean}, {"field", influxql.AnyField}, {"tag", influxql.Tag}}
		t := pick(g.r, types)
		g.emitGlued("::")
		s := t.s
		if !g.plain && g.r.chance(1, 3) {
			s = strings.ToUpper(s)
		}
		g.emitGlued(s)
		v.Type = t.t
	}
	return v
}

func (g *gen) intLit() influxql.Expr {
	switch g.r.intn(6) {
	case 0:
		g.emit("9223372036854775807")
		return &influxql.IntegerLiteral{Val: math.MaxInt64}
	case 1:
		g.emit("9223372036854775808")
		return &influxql.UnsignedLiteral{Val: 1 << 63}
	case 2:
		g.emit("18446744073709551615")
		return &influxql.UnsignedLiteral{Val: math.MaxUint64}
	case 3:
		g.emit("007")
		return &influxql.IntegerLiteral{Val: 7}
	}
	v := int64(g.r.intn(1000))
	g.emit(strconv.FormatInt(v, 10))
	return &influxql.IntegerLiteral{Val: v}
}

func (g *gen) numLit() *influxql.NumberLiteral {
	spell := []string{"1.5", "0.25", ".5", "10.0", "3.14159", "100.125", "0.0", "2.", "123456789.5",
		// whole floats at the edges of the integer ranges and of exact representation, tiny and huge ones
		"9223372036854775808.0", "9223372036854775807.0", "18446744073709551616.0", "9007199254740993.0", "4294967296.0", "1000000000000000000000.0", "0.000001", "0.0000001", "123456789012345678.0"}
	s := pick(g.r, spell)
	g.emit(s)
	f, _ := strconv.ParseFloat(strings.TrimSuffix(s, "."), 64)
	return &influxql.NumberLiteral{Val: f}
}

func (g *gen) call(depth int) *influxql.Call { return g.callN(depth, true) }
func (g *gen) callN(depth int, allowDistinct bool) *influxql.Call {
	names := []string{"mean", "count", "MAX", "percentile", "Derivative", "top", "f", "now", "distinct"}
	if !allowDistinct {
		names = names[:len(names)-1]
	}
	n := pick(g.r, names)
	if n == "distinct" {
		g.kw("DISTINCT")
	} else {
		g.emit(n)
	}
	g.emitGlued("(")
	c := &influxql.Call{Name: strings.ToLower(n)}
	k := g.r.intn(4)
	if n == "now" {
		k = 0
	}
	if g.odd && g.r.chance(1, 3) {
		k = g.r.intn(2) * 5
	}
	for i := 0; i < k; i++ {
		if i > 0 {
			g.emit(",")
		}
		switch g.r.intn(8) {
		case 0:
			g.emitGap("/x+/")
			c.Args = append(c.Args, &influxql.RegexLiteral{Val: regexp.MustCompile("x+")})
		case 1:
			g.emit("*")
			c.Args = append(c.Args, &influxql.Wildcard{})
		default:
			c.Args = append(c.Args, g.expr(depth-1, false))
		}
	}
	g.emit(")")
	return c
}

// atom: what parseUnaryExpr returns
func (g *gen) atom(depth int, cond bool) influxql.Expr {
	for {
		switch g.r.intn(13) {
		case 0, 1, 2:
			return g.varRef()
		case 3:
			return g.intLit()
		case 4:
			return g.numLit()
		case 5:
			if cond {
				s := pick(g.r, strPool)
				g.str(s)
				return &influxql.StringLiteral{Val: s}
			}
		case 6:
			d := pick(g.r, durPool)
			g.emit(d.s)
			return &influxql.DurationLiteral{Val: d.d}
		case 7:
			if cond {
				v := g.r.chance(1, 2)
				if v {
					g.kw("TRUE")
				} else {
					g.kw("FALSE")
				}
				return &influxql.BooleanLiteral{Val: v}
			}
		case 8:
			if depth > 0 {
				return g.call(depth)
			}
		case 9:
			if depth > 0 {
				g.emit("(")
				e := g.expr(depth-1, cond)
				g.emit(")")
				return &influxql.ParenExpr{Expr: e}
			}
		case 10: // signed literal
			neg := g.r.chance(2, 3)
			if neg {
				g.emit("-")
			} else {
				g.emit("+")
			}
			switch g.r.intn(4) {
			case 0:
				v := int64(g.r.intn(500))
				g.emit(strconv.FormatInt(v, 10))
				if neg {
					v = -v
				}
				return &influxql.IntegerLiteral{Val: v}
			case 1:
				n := g.numLit()
				if neg {
					n.Val = -n.Val
				}
				return n
			case 2:
				d := pick(g.r, durPool)
				g.emit(d.s)
				if neg {
					return &influxql.DurationLiteral{Val: -d.d}
				}
				return &influxql.DurationLiteral{Val: d.d}
			default:
				if neg {
					g.emit("9223372036854775808")
					return &influxql.IntegerLiteral{Val: math.MinInt64}
				}
				g.emit("12")
				return &influxql.IntegerLiteral{Val: 12}
			}
		case 11: // sign on a reference, call or group: desugared to  -1 * x  /  1 * x
			if depth > 0 {
				neg := g.r.chance(2, 3)
				m := int64(1)
				if neg {
					g.emit("-")
					m = -1
				} else {
					g.emit("+")
				}
				var x influxql.Expr
				switch g.r.intn(3) {
				case 0:
					x = g.varRef()
				case 1:
					x = g.callN(depth-1, false) // a DISTINCT keyword is not accepted after a sign
				default:
					g.emit("(")
					e := g.expr(depth-1, cond)
					g.emit(")")
					x = &influxql.ParenExpr{Expr: e}
				}
				return &influxql.BinaryExpr{Op: influxql.MUL, LHS: &influxql.IntegerLiteral{Val: m}, RHS: x}
			}
		case 12:
			if g.r.chance(1, 3) {
				g.kw("DISTINCT")
				n := g.name()
				g.emitGap(g.identSpelling(n))
				return &influxql.Distinct{Val: n}
			}
		}
	}
}

type opSpell struct {
	s  string
	op influxql.Token
}

var arithOps = []opSpell{{"+", influxql.ADD}, {"-", influxql.SUB}, {"*", influxql.MUL}, {"/", influxql.DIV}, {"%", influxql.MOD}, {"&", influxql.BITWISE_AND}, {"|", influxql.BITWISE_OR}, {"^", influxql.BITWISE_XOR}}
var cmpOps = []opSpell{{"=", influxql.EQ}, {"!=", influxql.NEQ}, {"<>", influxql.NEQ}, {"<", influxql.LT}, {"<=", influxql.LTE}, {">", influxql.GT}, {">=", influxql.GTE}}

// insertRight: the documented reading — five levels, left-associative — built directly (reference precedence climbing).
func climb(first influxql.Expr, ops []influxql.Token, rest []influxql.Expr, minPrec int, i *int) influxql.Expr {
	lhs := first
	for *i < len(ops) && refPrec(ops[*i]) >= minPrec {
		op := ops[*i]
		*i++
		rhs := rest[*i-1]
		for *i < len(ops) && refPrec(ops[*i]) > refPrec(op) {
			rhs = climb(rhs, ops, rest, refPrec(ops[*i]), i)
		}
		lhs = &influxql.BinaryExpr{Op: op, LHS: lhs, RHS: rhs}
	}
	return lhs
}

// expr: a chain of atoms; cond allows comparison and logical operators
func (g *gen) expr(depth int, cond bool) influxql.Expr {
	n := 0
	switch g.r.intn(6) {
	case 0, 1:
		n = 1
	case 2:
		n = 2
	case 3:
		n = 3
	}
	first := g.atom(depth, cond)
	var ops []influxql.Token
	var rest []influxql.Expr
	for i := 0; i < n; i++ {
		var o opSpell
		if cond && g.r.chance(1, 2) {
			switch g.r.intn(8) {
			case 0, 1:
				g.kw("AND")
				o = opSpell{"", influxql.AND}
			case 2:
				g.kw("OR")
				o = opSpell{"", influxql.OR}
			case 3:
				o = pick(g.r, []opSpell{{"=~", influxql.EQREGEX}, {"!~", influxql.NEQREGEX}})
				g.emit(o.s)
				ops = append(ops, o.op)
				rest = append(rest, g.regexLit())
				continue
			default:
				o = pick(g.r, cmpOps)
				g.emit(o.s)
			}
		} else {
			o = pick(g.r, arithOps)
			g.emit(o.s)
		}
		ops = append(ops, o.op)
		rest = append(rest, g.atom(depth, cond))
	}
	i := 0
	return climb(first, ops, rest, 1, &i)
}

// ---- SELECT ----
func hasCall(e influxql.Expr) bool {
	switch e := e.(type) {
	case *influxql.Call:
		return true
	case *influxql.BinaryExpr:
		return hasCall(e.LHS) || hasCall(e.RHS)
	case *influxql.ParenExpr:
		return hasCall(e.Expr)
	}
	return false
}

func (g *gen) measurementName(m *influxql.Measurement, allowRegex bool) {
	form := g.r.intn(8)
	switch {
	case form == 0 && allowRegex:
		g.emitGap("/cpu.*/")
		m.Regex = &influxql.RegexLiteral{Val: regexp.MustCompile("cpu.*")}
	case form == 1:
		m.Database, m.RetentionPolicy, m.Name = g.name(), g.name(), g.name()
		g.ident(m.Database)
		g.emitGlued(".")
		g.afterDot(m.RetentionPolicy)
		g.emitGlued(".")
		g.afterDot(m.Name)
	case form == 2:
		m.Database, m.Name = g.name(), g.name()
		g.ident(m.Database)
		g.emitGlued("..")
		g.afterDot(m.Name)
	case form == 3:
		m.RetentionPolicy, m.Name = g.name(), g.name()
		g.ident(m.RetentionPolicy)
		g.emitGlued(".")
		g.afterDot(m.Name)
	case form == 4 && allowRegex:
		m.Database, m.RetentionPolicy = g.name(), g.name()
		g.ident(m.Database)
		g.emitGlued(".")
		g.afterDot(m.RetentionPolicy)
		g.emitGlued(".")
		g.emitGlued("/^m/")
		m.Regex = &influxql.RegexLiteral{Val: regexp.MustCompile("^m")}
	default:
		m.Name = g.name()
		g.ident(m.Name)
	}
}

func (g *gen) sources(depth int, subqueries bool) influxql.Sources {
	var ss influxql.Sources
	n := 1 + g.r.intn(3)/2
	for i := 0; i < n; i++ {
		if i > 0 {
			g.emit(",")
		}
		if subqueries && depth > 0 && g.r.chance(1, 5) {
			g.emit("(")
			g.kw("SELECT")
			q := g.selectBody(depth-1, 0)
			g.emit(")")
			ss = append(ss, &influxql.SubQuery{Statement: q})
			continue
		}
		m := &influxql.Measurement{}
		g.measurementName(m, true)
		ss = append(ss, m)
	}
	return ss
}

func (g *gen) dimensions(depth int) influxql.Dimensions {
	var ds influxql.Dimensions
	n := 1 + g.r.intn(3)
	for i := 0; i < n; i++ {
		if i > 0 {
			g.emit(",")
		}
		switch g.r.intn(6) {
		case 0:
			g.emit("*")
			ds = append(ds, &influxql.Dimension{Expr: &influxql.Wildcard{}})
		case 1:
			if g.odd && g.r.chance(1, 2) {
				g.emit(pick(g.r, []string{"time", "TIME", "Time"}))
				g.emitGlued("(")
				k := g.r.intn(4)
				for j := 0; j < k; j++ {
					if j > 0 {
						g.emit(",")
					}
					g.emit(pick(g.r, []string{"0s", "-1s", "1s", "x", "1", "1.5", "'s'", "now()", "*", "5m", "10s / 0.5", "9223372036854775807ns"}))
				}
				g.emit(")")
				ds = append(ds, &influxql.Dimension{Expr: &influxql.Wildcard{}})
				continue
			}
			g.emit("time")
			g.emitGlued("(")
			d := pick(g.r, durPool)
			g.emit(d.s)
			c := &influxql.Call{Name: "time", Args: []influxql.Expr{&influxql.DurationLiteral{Val: d.d}}}
			if g.r.chance(1, 3) {
				g.emit(",")
				o := pick(g.r, durPool)
				g.emit(o.s)
				c.Args = append(c.Args, &influxql.DurationLiteral{Val: o.d})
			}
			g.emit(")")
			ds = append(ds, &influxql.Dimension{Expr: c})
		case 2:
			g.emitGap("/^h/")
			ds = append(ds, &influxql.Dimension{Expr: &influxql.RegexLiteral{Val: regexp.MustCompile("^h")}})
		default:
			ds = append(ds, &influxql.Dimension{Expr: g.varRef()})
		}
	}
	return ds
}

// targetMode: 0 none allowed/optional, 1 required
func (g *gen) selectBody(depth int, targetMode int) *influxql.SelectStatement {
	q := &influxql.SelectStatement{IsRawQuery: true}
	nf := 1 + g.r.intn(3)
	for i := 0; i < nf; i++ {
		if i > 0 {
			g.emit(",")
		}
		f := &influxql.Field{}
		switch g.r.intn(7) {
		case 0:
			g.emit("*")
			f.Expr = &influxql.Wildcard{}
			if g.r.chance(1, 3) {
				g.emitGlued("::")
				if g.r.chance(1, 2) {
					g.emitGlued("field")
					f.Expr = &influxql.Wildcard{Type: influxql.FIELD}
				} else {
					g.emitGlued("tag")
					f.Expr = &influxql.Wildcard{Type: influxql.TAG}
				}
			}
		case 1:
			g.emitGap("/^v/")
			f.Expr = &influxql.RegexLiteral{Val: regexp.MustCompile("^v")}
		default:
			f.Expr = g.expr(depth, false)
		}
		if g.r.chance(1, 4) {
			g.kw("AS")
			f.Alias = g.name()
			g.ident(f.Alias)
		}
		if hasCall(f.Expr) {
			q.IsRawQuery = false
		}
		q.Fields = append(q.Fields, f)
	}
	if targetMode == 1 || (targetMode == 0 && depth >= 0 && g.r.chance(1, 6)) {
		g.kw("INTO")
		m := &influxql.Measurement{IsTarget: true}
		switch g.r.intn(5) {
		case 0:
			m.Database, m.RetentionPolicy = g.name(), g.name()
			g.ident(m.Database)
			g.emitGlued(".")
			g.afterDot(m.RetentionPolicy)
			g.emitGlued(".")
			g.emitGlued(":")
			g.kwGlued("MEASUREMENT")
		case 1:
			m.RetentionPolicy = g.name()
			g.ident(m.RetentionPolicy)
			g.emitGlued(".")
			g.emitGlued(":")
			g.kwGlued("MEASUREMENT")
		default:
			g.measurementName(m, false)
		}
		q.Target = &influxql.Target{Measurement: m}
	}
	g.kw("FROM")
	q.Sources = g.sources(depth, true)
	if g.r.chance(1, 2) {
		g.kw("WHERE")
		q.Condition = g.expr(depth, true)
	}
	if g.r.chance(1, 2) {
		g.kw("GROUP")
		g.kw("BY")
		q.Dimensions = g.dimensions(depth)
	}
	if g.r.chance(1, 4) {
		g.emit(pick(g.r, []string{"fill", "FILL", "Fill"}))
		g.emitGlued("(")
		switch g.r.intn(7) {
		case 0:
			g.emit("null")
		case 1:
			g.emit("none")
			q.Fill = influxql.NoFill
		case 2:
			g.emit("previous")
			q.Fill = influxql.PreviousFill
		case 3:
			g.emit("linear")
			q.Fill = influxql.LinearFill
		case 4:
			g.emit("3.5")
			q.Fill, q.FillValue = influxql.NumberFill, float64(3.5)
		case 5:
			g.emit("-")
			g.emit("2")
			q.Fill, q.FillValue = influxql.NumberFill, int64(-2)
		default:
			v := int64(g.r.intn(100))
			g.emit(strconv.FormatInt(v, 10))
			q.Fill, q.FillValue = influxql.NumberFill, v
		}
		g.emit(")")
	}
	if g.r.chance(1, 4) {
		g.kw("ORDER")
		g.kw("BY")
		switch g.r.intn(4) {
		case 0:
			g.kw("ASC")
			q.SortFields = influxql.SortFields{{Ascending: true}}
		case 1:
			g.kw("DESC")
			q.SortFields = influxql.SortFields{{Ascending: false}}
		case 2:
			g.emit("time")
			q.SortFields = influxql.SortFields{{Name: "time", Ascending: true}}
		default:
			g.emit("time")
			g.kw("DESC")
			q.SortFields = influxql.SortFields{{Name: "time", Ascending: false}}
		}
	}
	q.Limit = g.optCount("LIMIT")
	q.Offset = g.optCount("OFFSET")
	q.SLimit = g.optCount("SLIMIT")
	q.SOffset = g.optCount("SOFFSET")
	if g.r.chance(1, 8) {
		g.emit(pick(g.r, []string{"tz", "TZ"}))
		g.emitGlued("(")
		g.emit("'UTC'")
		g.emit(")")
		q.Location = time.UTC
	}
	return q
}

func (g *gen) kwGlued(w string) {
	n := len(g.toks)
	g.kw(w)
	g.toks[n].glue = true
}

var countSeq = 0

// optCount: distinct values per slot so that cross-wired clauses are visible
func (g *gen) optCount(kw string) int {
	if !g.r.chance(1, 3) {
		return 0
	}
	g.kw(kw)
	countSeq++
	v := 1 + (countSeq*7+g.r.intn(5))%997
	if g.r.chance(1, 10) { // the edges: the counts are ints, 64 bits wide here
		v = pick(g.r, []int{math.MaxInt32, math.MaxInt32 + 1, math.MaxInt64, math.MaxInt64 - 1, 1 << 53, 0})
	}
	s := strconv.Itoa(v)
	if !g.plain && g.r.chance(1, 8) {
		s = "00" + s // leading zeros do not change the value
	}
	g.emit(s)
	return v
}

func (g *gen) optOn() string {
	if !g.r.chance(1, 2) {
		return ""
	}
	g.kw("ON")
	n := g.name()
	g.ident(n)
	return n
}

func (g *gen) optFrom() influxql.Sources {
	if !g.r.chance(1, 2) {
		return nil
	}
	g.kw("FROM")
	return g.sources(0, false)
}
func (g *gen) optWhere() influxql.Expr {
	if !g.r.chance(1, 2) {
		return nil
	}
	g.kw("WHERE")
	return g.expr(1, true)
}
func (g *gen) optGroupBy() influxql.Dimensions {
	if !g.r.chance(1, 3) {
		return nil
	}
	g.kw("GROUP")
	g.kw("BY")
	return g.dimensions(0)
}
func (g *gen) optOrderBy() influxql.SortFields {
	if !g.r.chance(1, 4) {
		return nil
	}
	g.kw("ORDER")
	g.kw("BY")
	if g.r.chance(1, 2) {
		g.kw("DESC")
		return influxql.SortFields{{Ascending: false}}
	}
	g.emit("time")
	g.kw("ASC")
	return influxql.SortFields{{Name: "time", Ascending: true}}
}

func (g *gen) dur() time.Duration {
	d := pick(g.r, durPool)
	g.emit(d.s)
	return d.d
}
func (g *gen) durOrInf() time.Duration {
	if g.r.chance(1, 5) {
		g.kw("INF")
		return 0
	}
	return g.dur()
}

func (g *gen) tagKeyExpr() (influxql.Token, influxql.Literal) {
	g.kw("WITH")
	g.kw("KEY")
	switch g.r.intn(5) {
	case 0:
		g.kw("IN")
		g.emit("(")
		n := 1 + g.r.intn(3)
		var vals []string
		for i := 0; i < n; i++ {
			if i > 0 {
				g.emit(",")
			}
			v := g.name()
			g.ident(v)
			vals = append(vals, v)
		}
		g.emit(")")
		return influxql.IN, &influxql.ListLiteral{Vals: vals}
	case 1:
		g.emit("=")
		v := g.name()
		g.ident(v)
		return influxql.EQ, &influxql.StringLiteral{Val: v}
	case 2:
		g.emit(pick(g.r, []string{"!=", "<>"}))
		v := g.name()
		g.ident(v)
		return influxql.NEQ, &influxql.StringLiteral{Val: v}
	case 3:
		g.emit("=~")
		return influxql.EQREGEX, g.regexLit()
	default:
		g.emit("!~")
		return influxql.NEQREGEX, g.regexLit()
	}
}

var stmtKinds = []string{"select", "select", "select", "select", "explain", "delete", "dropseries", "showseries", "showseriescard", "showmeascard", "showmeasurements",
	"showretentionpolicies", "showtagkeycard", "showtagkeys", "showtagvalues", "showtagvaluescard", "showfieldkeycard", "showfieldkeys", "simple", "createrp", "alterrp",
	"createdb", "createuser", "setpassword", "grant", "revoke", "kill", "createsub", "dropsub", "createcq", "showstats", "names"}

// statement: text pieces are emitted into g; returns the AST the text denotes and the kind label
func (g *gen) statement(kind string) influxql.Statement {
	switch kind {
	case "select":
		g.kw("SELECT")
		return g.selectBody(2, 0)
	case "explain":
		g.kw("EXPLAIN")
		s := &influxql.ExplainStatement{}
		if g.r.chance(1, 2) {
			g.kw("ANALYZE")
			s.Analyze = true
		}
		if g.r.chance(1, 2) {
			g.kw("VERBOSE")
			s.Verbose = true
		}
		g.kw("SELECT")
		s.Statement = g.selectBody(1, 0)
		return s
	case "delete":
		g.kw("DELETE")
		s := &influxql.DeleteSeriesStatement{}
		if g.r.chance(2, 3) {
			g.kw("FROM")
			m := &influxql.Measurement{}
			if g.r.chance(1, 3) {
				g.emitGap("/cpu.*/")
				m.Regex = &influxql.RegexLiteral{Val: regexp.MustCompile("cpu.*")}
			} else {
				m.Name = g.name()
				g.ident(m.Name)
			}
			s.Sources = influxql.Sources{m}
		}
		if s.Sources == nil || g.r.chance(1, 2) {
			g.kw("WHERE")
			s.Condition = g.expr(1, true)
		}
		return s
	case "dropseries":
		g.kw("DROP")
		g.kw("SERIES")
		s := &influxql.DropSeriesStatement{}
		if g.r.chance(2, 3) {
			g.kw("FROM")
			m := &influxql.Measurement{Name: g.name()}
			g.ident(m.Name)
			s.Sources = influxql.Sources{m}
		}
		if s.Sources == nil || g.r.chance(1, 2) {
			g.kw("WHERE")
			s.Condition = g.expr(1, true)
		}
		return s
	case "showseries":
		g.kw("SHOW")
		g.kw("SERIES")
		s := &influxql.ShowSeriesStatement{}
		s.Database = g.optOn()
		s.Sources = g.optFrom()
		s.Condition = g.optWhere()
		s.SortFields = g.optOrderBy()
		s.Limit = g.optCount("LIMIT")
		s.Offset = g.optCount("OFFSET")
		return s
	case "showseriescard":
		g.kw("SHOW")
		g.kw("SERIES")
		s := &influxql.ShowSeriesCardinalityStatement{}
		if g.r.chance(1, 2) {
			g.kw("EXACT")
			s.Exact = true
		}
		g.kw("CARDINALITY")
		s.Database = g.optOn()
		s.Sources = g.optFrom()
		s.Condition = g.optWhere()
		s.Dimensions = g.optGroupBy()
		s.Limit = g.optCount("LIMIT")
		s.Offset = g.optCount("OFFSET")
		return s
	case "showmeascard":
		g.kw("SHOW")
		g.kw("MEASUREMENT")
		s := &influxql.ShowMeasurementCardinalityStatement{}
		if g.r.chance(1, 2) {
			g.kw("EXACT")
			s.Exact = true
		}
		g.kw("CARDINALITY")
		s.Database = g.optOn()
		s.Sources = g.optFrom()
		s.Condition = g.optWhere()
		s.Dimensions = g.optGroupBy()
		s.Limit = g.optCount("LIMIT")
		s.Offset = g.optCount("OFFSET")
		return s
	case "showmeasurements":
		g.kw("SHOW")
		g.kw("MEASUREMENTS")
		s := &influxql.ShowMeasurementsStatement{}
		if g.r.chance(1, 2) {
			g.kw("ON")
			if g.r.chance(1, 4) {
				g.emit("*")
				s.WildcardDatabase = true
			} else {
				s.Database = g.name()
				g.ident(s.Database)
			}
			if g.r.chance(1, 2) {
				g.emit(".")
				if g.r.chance(1, 3) {
					g.emit("*")
					s.WildcardRetentionPolicy = true
				} else {
					s.RetentionPolicy = g.name()
					g.ident(s.RetentionPolicy)
				}
			}
		}
		if g.r.chance(1, 2) {
			g.kw("WITH")
			g.kw("MEASUREMENT")
			m := &influxql.Measurement{}
			if g.r.chance(1, 2) {
				g.emit("=~")
				g.emit("/^c/")
				m.Regex = &influxql.RegexLiteral{Val: regexp.MustCompile("^c")}
			} else {
				g.emit("=")
				g.measurementName(m, false) // a source name: database and retention policy in front are part of the grammar
			}
			s.Source = m
		}
		s.Condition = g.optWhere()
		s.SortFields = g.optOrderBy()
		s.Limit = g.optCount("LIMIT")
		s.Offset = g.optCount("OFFSET")
		return s
	case "showretentionpolicies":
		g.kw("SHOW")
		g.kw("RETENTION")
		g.kw("POLICIES")
		return &influxql.ShowRetentionPoliciesStatement{Database: g.optOn()}
	case "showtagkeycard":
		g.kw("SHOW")
		g.kw("TAG")
		g.kw("KEY")
		s := &influxql.ShowTagKeyCardinalityStatement{}
		if g.r.chance(1, 2) {
			g.kw("EXACT")
			s.Exact = true
		}
		g.kw("CARDINALITY")
		s.Database = g.optOn()
		s.Sources = g.optFrom()
		s.Condition = g.optWhere()
		s.Dimensions = g.optGroupBy()
		s.Limit = g.optCount("LIMIT")
		s.Offset = g.optCount("OFFSET")
		return s
	case "showtagkeys":
		g.kw("SHOW")
		g.kw("TAG")
		g.kw("KEYS")
		s := &influxql.ShowTagKeysStatement{}
		s.Database = g.optOn()
		s.Sources = g.optFrom()
		if g.r.chance(1, 3) {
			s.TagKeyOp, s.TagKeyExpr = g.tagKeyExpr()
		}
		s.Condition = g.optWhere()
		s.SortFields = g.optOrderBy()
		s.Limit = g.optCount("LIMIT")
		s.Offset = g.optCount("OFFSET")
		s.SLimit = g.optCount("SLIMIT")
		s.SOffset = g.optCount("SOFFSET")
		return s
	case "showtagvalues":
		g.kw("SHOW")
		g.kw("TAG")
		g.kw("VALUES")
		s := &influxql.ShowTagValuesStatement{}
		s.Database = g.optOn()
		s.Sources = g.optFrom()
		s.Op, s.TagKeyExpr = g.tagKeyExpr()
		s.Condition = g.optWhere()
		s.SortFields = g.optOrderBy()
		s.Limit = g.optCount("LIMIT")
		s.Offset = g.optCount("OFFSET")
		return s
	case "showtagvaluescard":
		g.kw("SHOW")
		g.kw("TAG")
		g.kw("VALUES")
		s := &influxql.ShowTagValuesCardinalityStatement{}
		if g.r.chance(1, 2) {
			g.kw("EXACT")
			s.Exact = true
		}
		g.kw("CARDINALITY")
		s.Database = g.optOn()
		s.Sources = g.optFrom()
		s.Op, s.TagKeyExpr = g.tagKeyExpr()
		s.Condition = g.optWhere()
		s.Dimensions = g.optGroupBy()
		s.Limit = g.optCount("LIMIT")
		s.Offset = g.optCount("OFFSET")
		return s
	case "showfieldkeycard":
		g.kw("SHOW")
		g.kw("FIELD")
		g.kw("KEY")
		s := &influxql.ShowFieldKeyCardinalityStatement{}
		if g.r.chance(1, 2) {
			g.kw("EXACT")
			s.Exact = true
		}
		g.kw("CARDINALITY")
		s.Database = g.optOn()
		s.Sources = g.optFrom()
		s.Condition = g.optWhere()
		s.Dimensions = g.optGroupBy()
		s.Limit = g.optCount("LIMIT")
		s.Offset = g.optCount("OFFSET")
		return s
	case "showfieldkeys":
		g.kw("SHOW")
		g.kw("FIELD")
		g.kw("KEYS")
		s := &influxql.ShowFieldKeysStatement{}
		s.Database = g.optOn()
		s.Sources = g.optFrom()
		s.SortFields = g.optOrderBy()
		s.Limit = g.optCount("LIMIT")
		s.Offset = g.optCount("OFFSET")
		return s
	case "simple":
		type simple struct {
			words []string
			st    influxql.Statement
		}
		all := []simple{
			{[]string{"SHOW", "DATABASES"}, &influxql.ShowDatabasesStatement{}},
			{[]string{"SHOW", "USERS"}, &influxql.ShowUsersStatement{}},
			{[]string{"SHOW", "QUERIES"}, &influxql.ShowQueriesStatement{}},
			{[]string{"SHOW", "SHARDS"}, &influxql.ShowShardsStatement{}},
			{[]string{"SHOW", "SHARD", "GROUPS"}, &influxql.ShowShardGroupsStatement{}},
			{[]string{"SHOW", "SUBSCRIPTIONS"}, &influxql.ShowSubscriptionsStatement{}},
			{[]string{"SHOW", "CONTINUOUS", "QUERIES"}, &influxql.ShowContinuousQueriesStatement{}},
		}
		s := pick(g.r, all)
		for _, w := range s.words {
			g.kw(w)
		}
		return s.st
	case "names":
		n1, n2 := g.name(), g.name()
		switch g.r.intn(8) {
		case 0:
			g.kw("DROP"); g.kw("DATABASE"); g.ident(n1)
			return &influxql.DropDatabaseStatement{Name: n1}
		case 1:
			g.kw("DROP"); g.kw("MEASUREMENT"); g.ident(n1)
			return &influxql.DropMeasurementStatement{Name: n1}
		case 2:
			g.kw("DROP"); g.kw("USER"); g.ident(n1)
			return &influxql.DropUserStatement{Name: n1}
		case 3:
			g.kw("DROP"); g.kw("RETENTION"); g.kw("POLICY"); g.ident(n1); g.kw("ON"); g.ident(n2)
			return &influxql.DropRetentionPolicyStatement{Name: n1, Database: n2}
		case 4:
			g.kw("DROP"); g.kw("CONTINUOUS"); g.kw("QUERY"); g.ident(n1); g.kw("ON"); g.ident(n2)
			return &influxql.DropContinuousQueryStatement{Name: n1, Database: n2}
		case 5:
			g.kw("SHOW"); g.kw("GRANTS"); g.kw("FOR"); g.ident(n1)
			return &influxql.ShowGrantsForUserStatement{Name: n1}
		case 6:
			g.kw("DROP"); g.kw("SHARD")
			id := g.r.next() >> uint(g.r.intn(64))
			g.emit(strconv.FormatUint(id, 10))
			return &influxql.DropShardStatement{ID: id}
		default:
			g.kw("SHOW"); g.kw("DIAGNOSTICS")
			s := &influxql.ShowDiagnosticsStatement{}
			if g.r.chance(1, 2) {
				g.kw("FOR")
				s.Module = pick(g.r, strPool)
				g.str(s.Module)
			}
			return s
		}
	case "showstats":
		g.kw("SHOW"); g.kw("STATS")
		s := &influxql.ShowStatsStatement{}
		if g.r.chance(1, 2) {
			g.kw("FOR")
			s.Module = pick(g.r, strPool)
			g.str(s.Module)
		}
		return s
	case "createrp":
		g.kw("CREATE"); g.kw("RETENTION"); g.kw("POLICY")
		s := &influxql.CreateRetentionPolicyStatement{}
		s.Name = g.name(); g.ident(s.Name)
		g.kw("ON")
		s.Database = g.name(); g.ident(s.Database)
		g.kw("DURATION")
		s.Duration = g.durOrInf()
		g.kw("REPLICATION")
		s.Replication = 1 + g.r.intn(5)
		if g.r.chance(1, 10) {
			s.Replication = math.MaxInt32
		}
		g.emit(strconv.Itoa(s.Replication))
		if g.r.chance(1, 2) {
			g.kw("SHARD"); g.kw("DURATION")
			s.ShardGroupDuration = g.dur()
		}
		if g.r.chance(1, 2) {
			g.kw("DEFAULT")
			s.Default = true
		}
		if g.r.chance(1, 3) {
			g.kw("FUTURE"); g.kw("LIMIT")
			s.FutureWriteLimit = g.durOrInf()
		}
		if g.r.chance(1, 3) {
			g.kw("PAST"); g.kw("LIMIT")
			s.PastWriteLimit = g.durOrInf()
		}
		return s
	case "alterrp":
		g.kw("ALTER"); g.kw("RETENTION"); g.kw("POLICY")
		s := &influxql.AlterRetentionPolicyStatement{}
		if g.r.chance(1, 8) {
			g.kw("DEFAULT")
			s.Name = "default"
		} else {
			s.Name = g.name(); g.ident(s.Name)
		}
		g.kw("ON")
		s.Database = g.name(); g.ident(s.Database)
		opts := []int{0, 1, 2, 3, 4, 5}
		for i := len(opts) - 1; i > 0; i-- { // any order
			j := g.r.intn(i + 1)
			opts[i], opts[j] = opts[j], opts[i]
		}
		k := 1 + g.r.intn(len(opts))
		for _, o := range opts[:k] {
			switch o {
			case 0:
				g.kw("DURATION")
				d := g.durOrInf()
				s.Duration = &d
			case 1:
				g.kw("REPLICATION")
				n := 1 + g.r.intn(9)
				g.emit(strconv.Itoa(n))
				s.Replication = &n
			case 2:
				g.kw("SHARD"); g.kw("DURATION")
				d := g.dur()
				s.ShardGroupDuration = &d
			case 3:
				g.kw("DEFAULT")
				s.Default = true
			case 4:
				g.kw("FUTURE"); g.kw("LIMIT")
				d := g.durOrInf()
				s.FutureWriteLimit = &d
			case 5:
				g.kw("PAST"); g.kw("LIMIT")
				d := g.durOrInf()
				s.PastWriteLimit = &d
			}
		}
		return s
	case "createdb":
		g.kw("CREATE"); g.kw("DATABASE")
		s := &influxql.CreateDatabaseStatement{}
		s.Name = g.name(); g.ident(s.Name)
		mask := g.r.intn(64)
		if g.r.chance(1, 3) {
			mask = 0
		}
		if mask != 0 {
			g.kw("WITH")
			s.RetentionPolicyCreate = true
			if mask&1 != 0 {
				g.kw("DURATION")
				d := g.durOrInf()
				s.RetentionPolicyDuration = &d
			}
			if mask&2 != 0 {
				g.kw("REPLICATION")
				n := 1 + g.r.intn(9)
				g.emit(strconv.Itoa(n))
				s.RetentionPolicyReplication = &n
			}
			if mask&4 != 0 {
				g.kw("SHARD"); g.kw("DURATION")
				s.RetentionPolicyShardGroupDuration = g.durOrInf()
			}
			if mask&8 != 0 {
				g.kw("FUTURE"); g.kw("LIMIT")
				d := g.durOrInf()
				s.FutureWriteLimit = &d
			}
			if mask&16 != 0 {
				g.kw("PAST"); g.kw("LIMIT")
				d := g.durOrInf()
				s.PastWriteLimit = &d
			}
			if mask&32 != 0 {
				g.kw("NAME")
				s.RetentionPolicyName = g.name()
				g.ident(s.RetentionPolicyName)
			}
		}
		return s
	case "createuser":
		g.kw("CREATE"); g.kw("USER")
		s := &influxql.CreateUserStatement{}
		s.Name = g.name(); g.ident(s.Name)
		g.kw("WITH"); g.kw("PASSWORD")
		s.Password = pick(g.r, strPool)
		g.str(s.Password)
		if g.r.chance(1, 2) {
			g.kw("WITH"); g.kw("ALL"); g.kw("PRIVILEGES")
			s.Admin = true
		}
		return s
	case "setpassword":
		g.kw("SET"); g.kw("PASSWORD"); g.kw("FOR")
		s := &influxql.SetPasswordUserStatement{}
		s.Name = g.name(); g.ident(s.Name)
		g.emit("=")
		s.Password = pick(g.r, strPool)
		g.str(s.Password)
		return s
	case "grant", "revoke":
		grant := kind == "grant"
		if grant {
			g.kw("GRANT")
		} else {
			g.kw("REVOKE")
		}
		p := pick(g.r, []influxql.Privilege{influxql.ReadPrivilege, influxql.WritePrivilege, influxql.AllPrivileges})
		switch p {
		case influxql.ReadPrivilege:
			g.kw("READ")
		case influxql.WritePrivilege:
			g.kw("WRITE")
		default:
			g.kw("ALL")
			if g.r.chance(1, 2) {
				g.kw("PRIVILEGES")
			}
		}
		if p == influxql.AllPrivileges && g.r.chance(1, 2) {
			u := g.name()
			if grant {
				g.kw("TO"); g.ident(u)
				return &influxql.GrantAdminStatement{User: u}
			}
			g.kw("FROM"); g.ident(u)
			return &influxql.RevokeAdminStatement{User: u}
		}
		g.kw("ON")
		on, u := g.name(), g.name()
		g.ident(on)
		if grant {
			g.kw("TO"); g.ident(u)
			return &influxql.GrantStatement{Privilege: p, On: on, User: u}
		}
		g.kw("FROM"); g.ident(u)
		return &influxql.RevokeStatement{Privilege: p, On: on, User: u}
	case "kill":
		g.kw("KILL"); g.kw("QUERY")
		s := &influxql.KillQueryStatement{QueryID: g.r.next() >> uint(g.r.intn(64))}
		if g.r.chance(1, 3) { // the edges of the unsigned range: the id is a uint64, not an int
			s.QueryID = pick(g.r, []uint64{1<<64 - 1, 1 << 63, 1<<63 - 1, 1<<63 + 1, 1<<64 - 2, 0, 1, 1<<32 - 1, 1 << 32})
		}
		g.emit(strconv.FormatUint(s.QueryID, 10))
		if g.r.chance(1, 2) {
			g.kw("ON")
			s.Host = g.name(); g.ident(s.Host)
		}
		return s
	case "createsub":
		g.kw("CREATE"); g.kw("SUBSCRIPTION")
		s := &influxql.CreateSubscriptionStatement{}
		s.Name = g.name(); g.ident(s.Name)
		g.kw("ON")
		s.Database = g.name(); g.ident(s.Database)
		g.emitGlued(".")
		s.RetentionPolicy = g.name(); g.ident(s.RetentionPolicy)
		g.kw("DESTINATIONS")
		if g.r.chance(1, 2) {
			g.kw("ALL"); s.Mode = "ALL"
		} else {
			g.kw("ANY"); s.Mode = "ANY"
		}
		n := 1 + g.r.intn(3)
		for i := 0; i < n; i++ {
			if i > 0 {
				g.emit(",")
			}
			d := fmt.Sprintf("udp://h%d:%d", i, 9000+g.r.intn(100))
			if g.r.chance(1, 3) { // a destination is any string: quotes, escapes and line breaks included
				d = pick(g.r, strPool)
			}
			g.str(d)
			s.Destinations = append(s.Destinations, d)
		}
		return s
	case "dropsub":
		g.kw("DROP"); g.kw("SUBSCRIPTION")
		s := &influxql.DropSubscriptionStatement{}
		s.Name = g.name(); g.ident(s.Name)
		g.kw("ON")
		s.Database = g.name(); g.ident(s.Database)
		g.emitGlued(".")
		s.RetentionPolicy = g.name(); g.ident(s.RetentionPolicy)
		return s
	case "createcq":
		g.kw("CREATE"); g.kw("CONTINUOUS"); g.kw("QUERY")
		s := &influxql.CreateContinuousQueryStatement{}
		s.Name = g.name(); g.ident(s.Name)
		g.kw("ON")
		s.Database = g.name(); g.ident(s.Database)
		if g.r.chance(1, 2) {
			g.kw("RESAMPLE")
			if g.r.chance(2, 3) {
				g.kw("EVERY"); g.emit("10s")
				s.ResampleEvery = 10 * time.Second
			}
			if s.ResampleEvery == 0 || g.r.chance(1, 2) {
				g.kw("FOR"); g.emit("2h")
				s.ResampleFor = 2 * time.Hour
			}
		}
		g.kw("BEGIN"); g.kw("SELECT")
		// aggregated with GROUP BY time, or raw
		q := &influxql.SelectStatement{}
		if g.r.chance(2, 3) {
			g.emit("mean"); g.emitGlued("("); g.emit("value"); g.emit(")")
			q.Fields = influxql.Fields{{Expr: &influxql.Call{Name: "mean", Args: []influxql.Expr{&influxql.VarRef{Val: "value"}}}}}
			g.kw("INTO")
			m := &influxql.Measurement{IsTarget: true}
			g.measurementName(m, false)
			q.Target = &influxql.Target{Measurement: m}
			g.kw("FROM")
			q.Sources = g.sources(0, false)
			g.kw("GROUP"); g.kw("BY"); g.emit("time"); g.emitGlued("(")
			if g.odd {
				g.emit(pick(g.r, []string{"", "5m", "0s", "x", "1", "5m, 1m", "5m, 1m, 1s", "-5m", "*"}))
			} else {
				g.emit("5m")
			}
			g.emit(")")
			q.Dimensions = influxql.Dimensions{{Expr: &influxql.Call{Name: "time", Args: []influxql.Expr{&influxql.DurationLiteral{Val: 5 * time.Minute}}}}}
			if g.r.chance(1, 2) {
				g.emit(","); g.ident("host")
				q.Dimensions = append(q.Dimensions, &influxql.Dimension{Expr: &influxql.VarRef{Val: "host"}})
			}
		} else {
			g.emit("value")
			q.IsRawQuery = true
			q.Fields = influxql.Fields{{Expr: &influxql.VarRef{Val: "value"}}}
			g.kw("INTO")
			m := &influxql.Measurement{IsTarget: true}
			g.measurementName(m, false)
			q.Target = &influxql.Target{Measurement: m}
			g.kw("FROM")
			q.Sources = g.sources(0, false)
		}
		s.Source = q
		g.kw("END")
		return s
	}
	panic("unknown kind " + kind)
}

// genStatement: one statement of the given kind in a random legal spelling.
// genOddStatement: a statement text that may contain forms later validation would reject; no AST is promised.
func genOddStatement(r *rng, kind string) string {
	g := &gen{r: r, plain: r.chance(1, 2), odd: true}
	g.statement(kind)
	return g.join()
}

func genStatement(r *rng, kind string, plain bool) (string, influxql.Statement, *gen) {
	g := &gen{r: r, plain: plain}
	st := g.statement(kind)
	return g.join(), st, g
}
