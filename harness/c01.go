package main

import (
	"fmt"
	"strings"

	"github.com/influxdata/influxql"
)

// C01: every statement derivable from the grammar, in any legal spelling, is
// accepted and denotes exactly the AST the generator wrote down.

func c01One(o *out, text string, want influxql.Statement, kind string) {
	st, err, pn := addParseStmtCase(o, text, nil)
	o.checked()
	o.count(kind)
	rp := map[string]interface{}{"op": "parse_statement_denotes", "text": text, "want": stmtSexp(want)}
	if pn != nil {
		o.fail("", fmt.Sprintf("ParseStatement(%q) panics: %v", text, pn), rp)
		return
	}
	if err != nil {
		o.fail("", fmt.Sprintf("ParseStatement(%q) rejects a statement derivable from the grammar: %v", text, err), rp)
		return
	}
	got := stmtSexp(st)
	if got != rp["want"] {
		o.fail("", fmt.Sprintf("ParseStatement(%q) builds a different AST than the text denotes: %s", text, st.String()), rp)
	}
	// the statement ends where its text ends: followed by a separator and another statement it parses to the same AST
	qt := text + ";SHOW USERS"
	q, qerr, _ := addParseQueryCase(o, qt, nil)
	o.checked()
	rq := map[string]interface{}{"op": "parse_query_frame", "text": qt, "want": stmtSexp(want)}
	if qerr != nil {
		o.fail("", fmt.Sprintf("ParseQuery(%q) fails although the statement parses alone: %v", qt, qerr), rq)
	} else if len(q.Statements) != 2 || stmtSexp(q.Statements[0]) != rp["want"] || stmtSexp(q.Statements[1]) != "(44)" {
		o.fail("", fmt.Sprintf("ParseQuery(%q) does not yield the statement and SHOW USERS: %s", qt, q.String()), rq)
	}
}

// c01RegexBackslash: a regular expression whose pattern ends in an escaped backslash (the two characters \\, which
// match one backslash) is written /...\\/ - a legal spelling.  ScanDelimited passes the first backslash through and then
// takes the second together with the closing slash for an escaped slash, so the literal never ends (known finding).
func c01RegexBackslash(o *out) {
	for _, c := range []struct{ text, first string }{
		{"SELECT a FROM m WHERE p =~ /a\\\\/", "a\\\\"},
		{"SELECT a FROM m WHERE p =~ /a\\\\/ AND q =~ /x/", "a\\\\"},
		{"SELECT a FROM m WHERE p !~ /\\\\/", "\\\\"},
		{"SELECT a FROM /^c:\\\\/", "^c:\\\\"},
		{"SELECT a FROM m WHERE p =~ /a\\\\b/", "a\\\\b"}, // not at the end: fine today
	} {
		o.count("regex-trailing-backslash")
		o.checked()
		st, err := influxql.ParseStatement(c.text)
		got := ""
		if err == nil {
			influxql.WalkFunc(st, func(n influxql.Node) {
				if r, ok := n.(*influxql.RegexLiteral); ok && got == "" && r.Val != nil {
					got = r.Val.String()
				}
			})
		}
		if err != nil || got != c.first {
			o.fail("C01-regex-trailing-backslash", fmt.Sprintf("%q: expected the regular expression %q, got %q (%v)", c.text, c.first, got, err), map[string]interface{}{"op": "regex_backslash", "text": c.text})
		}
	}
}

func propC01(o *out, r *rng, thorough bool) {
	c01RegexBackslash(o)
	per := 120
	if thorough {
		per = 12000
	}
	for _, s := range loadCorpus("statements.json") {
		addParseStmtCase(o, s, nil)
		o.count("corpus")
	}
	for _, kind := range stmtKinds {
		for i := 0; i < per; i++ {
			text, want, _ := genStatement(r, kind, i%5 == 0)
			c01One(o, text, want, kind)
			o.nontrivial(stmtSexp(want))
			if i < 1 {
				o.sample(text)
			}
		}
	}
	// keyword table: every keyword in every letter case pattern of up to 2^k variants reaches the same token
	for _, kw := range []string{"select", "from", "where", "group", "by", "limit", "offset", "slimit", "soffset", "into", "order", "asc", "desc", "and", "or", "true", "false", "inf"} {
		n := 1 << uint(len(kw))
		if n > 64 {
			n = 64
		}
		for m := 0; m < n; m++ {
			b := []byte(kw)
			for i := range b {
				if m>>uint(i)&1 == 1 {
					b[i] -= 32
				}
			}
			o.checked()
			if influxql.Lookup(string(b)) != influxql.Lookup(kw) || influxql.Lookup(kw) == influxql.IDENT {
				o.fail("", fmt.Sprintf("Lookup(%q) != Lookup(%q)", string(b), kw), map[string]interface{}{"op": "lookup", "text": string(b)})
			}
		}
	}
	_ = strings.ToLower
}

func init() {
	props["C01"] = propC01
	replayers["parse_statement_denotes"] = func(o *out, rp map[string]interface{}) {
		st, err := influxql.ParseStatement(rpStr(rp, "text"))
		o.checked()
		if err != nil {
			o.fail("", "rejected: "+err.Error(), rp)
		} else if stmtSexp(st) != rpStr(rp, "want") {
			o.fail("", "AST differs from the one the text denotes: "+st.String(), rp)
		}
	}
	replayers["parse_query_frame"] = func(o *out, rp map[string]interface{}) {
		q, err := influxql.ParseQuery(rpStr(rp, "text"))
		o.checked()
		if err != nil || len(q.Statements) != 2 || stmtSexp(q.Statements[0]) != rpStr(rp, "want") {
			o.fail("", "still not the statement followed by SHOW USERS", rp)
		}
	}
	replayers["lookup"] = func(o *out, rp map[string]interface{}) {
		o.checked()
		if influxql.Lookup(rpStr(rp, "text")) != influxql.Lookup(strings.ToLower(rpStr(rp, "text"))) {
			o.fail("", "keyword lookup is case sensitive", rp)
		}
	}
}
