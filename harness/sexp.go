package main

// Canonical S-expression writer shared with coq/Base/Sexp.v: atoms are
// decimal integers, strings are lists of code points, constructors are
// numeric tags. Hand-written (no reflection).

import (
	"math"
	"strconv"
	"strings"
	"time"

	"github.com/influxdata/influxql"
)

type sb struct{ strings.Builder }

func (b *sb) open()          { b.WriteByte('(') }
func (b *sb) close()         { b.WriteByte(')') }
func (b *sb) sp()            { b.WriteByte(' ') }
func (b *sb) atom(i int64)   { b.WriteString(strconv.FormatInt(i, 10)) }
func (b *sb) uatom(u uint64) { b.WriteString(strconv.FormatUint(u, 10)) }
func (b *sb) tag(i int64)    { b.open(); b.atom(i) }
func (b *sb) boolean(v bool) {
	if v {
		b.atom(1)
	} else {
		b.atom(0)
	}
}

// text writes a Go string as the list of its runes, decoded as
// bufio.Reader.ReadRune / []rune(s) do (each invalid byte is U+FFFD).
func (b *sb) text(s string) {
	b.open()
	first := true
	for _, r := range s {
		if !first {
			b.sp()
		}
		first = false
		b.atom(int64(r))
	}
	b.close()
}

func (b *sb) texts(ss []string) {
	b.open()
	for i, s := range ss {
		if i > 0 {
			b.sp()
		}
		b.text(s)
	}
	b.close()
}

func floatBits(f float64) uint64 {
	if f != f {
		return 0x7FF8000000000001 // all NaNs identified
	}
	return math.Float64bits(f)
}

// timeNanos: nanoseconds since the Unix epoch as an unbounded decimal.
func timeNanosString(t time.Time) string {
	sec := t.Unix()
	ns := int64(t.Nanosecond())
	// sec*1e9 + ns may overflow int64: use big arithmetic by string
	return bigMulAdd(sec, 1000000000, ns)
}

func (b *sb) expr(e influxql.Expr) {
	switch e := e.(type) {
	case *influxql.BinaryExpr:
		b.tag(1); b.sp(); b.atom(int64(e.Op)); b.sp(); b.expr(e.LHS); b.sp(); b.expr(e.RHS); b.close()
	case *influxql.BooleanLiteral:
		b.tag(2); b.sp(); b.boolean(e.Val); b.close()
	case *influxql.BoundParameter:
		b.tag(3); b.sp(); b.text(e.Name); b.close()
	case *influxql.Call:
		b.tag(4); b.sp(); b.text(e.Name); b.sp(); b.open()
		for i, a := range e.Args {
			if i > 0 {
				b.sp()
			}
			b.expr(a)
		}
		b.close(); b.close()
	case *influxql.Distinct:
		b.tag(5); b.sp(); b.text(e.Val); b.close()
	case *influxql.DurationLiteral:
		b.tag(6); b.sp(); b.atom(int64(e.Val)); b.close()
	case *influxql.IntegerLiteral:
		b.tag(7); b.sp(); b.atom(e.Val); b.close()
	case *influxql.UnsignedLiteral:
		b.tag(8); b.sp(); b.uatom(e.Val); b.close()
	case *influxql.NilLiteral:
		b.tag(9); b.close()
	case *influxql.NumberLiteral:
		b.tag(10); b.sp(); b.uatom(floatBits(e.Val)); b.close()
	case *influxql.ParenExpr:
		b.tag(11); b.sp(); b.expr(e.Expr); b.close()
	case *influxql.RegexLiteral:
		b.tag(12); b.sp()
		if e == nil || e.Val == nil {
			b.text("\x00nil")
		} else {
			b.text(e.Val.String())
		}
		b.close()
	case *influxql.ListLiteral:
		b.tag(13); b.sp(); b.texts(e.Vals); b.close()
	case *influxql.StringLiteral:
		b.tag(14); b.sp(); b.text(e.Val); b.close()
	case *influxql.TimeLiteral:
		b.tag(15); b.sp(); b.WriteString(timeNanosString(e.Val)); b.close()
	case *influxql.VarRef:
		b.tag(16); b.sp(); b.text(e.Val); b.sp(); b.atom(int64(e.Type)); b.close()
	case *influxql.Wildcard:
		b.tag(17); b.sp(); b.atom(int64(e.Type)); b.close()
	case nil:
		b.tag(-9); b.close()
	default:
		b.tag(-8); b.close()
	}
}

func exprSexp(e influxql.Expr) string {
	var b sb
	b.expr(e)
	return b.String()
}
