package main

import (
	"encoding/json"
	"fmt"
	"os"

	"github.com/influxdata/influxql"
)

// replayers: op name -> re-evaluation of the property on the recorded input
var replayers = map[string]func(o *out, rp map[string]interface{}){}

func rpStr(rp map[string]interface{}, k string) string { s, _ := rp[k].(string); return s }

// runReplay re-runs one recorded failing input against the implementation.
// Exit 1 if the failure reproduces, 0 otherwise.
func runReplay(prop, file string) int {
	data, err := os.ReadFile(file)
	must(err)
	var rp map[string]interface{}
	must(json.Unmarshal(data, &rp))
	op, _ := rp["op"].(string)
	text, _ := rp["text"].(string)
	if op == "panic" { // the whole run of the property was cut short by a panic in the implementation: run it again
		pn := safely(func() { props[prop](newOut(os.TempDir()+"/verif-replay"), newRng(1), false) })
		if pn != nil {
			fmt.Println("still panics:", pn)
			return 1
		}
		fmt.Println("the run no longer panics")
		return 0
	}
	if fn, ok := replayers[op]; ok {
		o := newOut(os.TempDir() + "/verif-replay")
		fn(o, rp)
		o.finish()
		if o.nfail > 0 {
			data, _ := os.ReadFile(os.TempDir() + "/verif-replay/direct.txt")
			fmt.Printf("still violates the property:\n%s", data)
			return 1
		}
		fmt.Println("the recorded input no longer violates the property")
		return 0
	}
	switch op {
	case "parse_expr":
		e, err := influxql.ParseExpr(text)
		if err != nil {
			fmt.Println("error:", err)
			return 1
		}
		got := exprSexp(e)
		fmt.Println("parsed:", e.String())
		if want, ok := rp["want"].(string); ok && want != got {
			fmt.Println("still differs from the expected tree")
			return 1
		}
		return 0
	case "reprint_expr":
		e, err := influxql.ParseExpr(text)
		if err != nil {
			fmt.Println("error:", err)
			return 1
		}
		e2, err := influxql.ParseExpr(e.String())
		if err != nil || exprSexp(e2) != exprSexp(e) {
			fmt.Printf("%q prints %q which re-parses differently\n", text, e.String())
			return 1
		}
		return 0
	}
	if op == "parse_duration" || op == "format_duration" || op == "duration_in_statement" {
		o := newOut(os.TempDir() + "/verif-replay")
		switch op {
		case "parse_duration":
			c08Parse(o, text, "replay")
		case "format_duration":
			var d int64
			fmt.Sscan(rp["d"].(string), &d)
			c08Format(o, d, "replay")
		default:
			c08InStatement(o, rp["lit"].(string))
		}
		o.finish()
		if o.nfail > 0 {
			fmt.Println("still violates the property: see", os.TempDir()+"/verif-replay/direct.txt")
			return 1
		}
		return 0
	}
	if op == "scan" {
		o := newOut(os.TempDir() + "/verif-replay")
		lexOne(o, text, "replay", true)
		o.finish()
		if o.nfail > 0 {
			fmt.Printf("scan of %q still violates the property\n", text)
			return 1
		}
		return 0
	}
	fmt.Println("replay: unknown op", op, "- see the file for the theorem or correspondence that no longer checks")
	return 1
}
