package main

import (
	"regexp"
	"sort"
	"strings"
	"time"

	"github.com/influxdata/influxql"
)

// paramsSexp: ((name toktype value) ...) exactly as Parser.SetParams binds them.
func paramsSexp(params map[string]interface{}) string {
	names := make([]string, 0, len(params))
	for k := range params {
		names = append(names, k)
	}
	sort.Strings(names)
	var b sb
	b.open()
	for i, n := range names {
		if i > 0 {
			b.sp()
		}
		v := influxql.BindValue(params[n])
		b.open(); b.text(n); b.sp(); b.atom(int64(v.TokenType())); b.sp(); b.text(v.Value()); b.close()
	}
	b.close()
	return b.String()
}

// regexCandidates: for each '/' in the text, the delimited body a regex scan
// starting there would yield (up to the next unescaped '/', "\/" unescaped).
func regexCandidates(text string) []string {
	rs := foldCR([]rune(text))
	var out []string
	for i, c := range rs {
		if c != '/' {
			continue
		}
		var body []rune
		ok := false
		for j := i + 1; j < len(rs); j++ {
			ch := rs[j]
			if ch == '/' {
				ok = true
				break
			} else if ch == '\n' || ch == 0 {
				break
			} else if ch == '\\' {
				if j+1 < len(rs) && rs[j+1] == '/' {
					body = append(body, '/')
					j++
				} else {
					body = append(body, '\\')
				}
			} else {
				body = append(body, ch)
			}
		}
		if ok {
			out = append(out, string(body))
		}
	}
	return out
}

// oracleTable: answers of the real Go libraries for the arguments this case can consult.
func oracleTable(text string, params map[string]interface{}) string {
	var b sb
	b.open()
	seen := map[string]bool{}
	first := true
	addRe := func(p string) {
		if seen["r"+p] {
			return
		}
		seen["r"+p] = true
		_, err := regexp.Compile(p)
		if err == nil {
			return // the model's default answer
		}
		if !first {
			b.sp()
		}
		first = false
		b.open(); b.atom(1); b.sp(); b.text(p); b.sp(); b.boolean(false); b.close()
	}
	addLoc := func(n string) {
		if seen["l"+n] {
			return
		}
		seen["l"+n] = true
		loc, err := time.LoadLocation(n)
		if err != nil {
			return
		}
		if !first {
			b.sp()
		}
		first = false
		b.open(); b.atom(2); b.sp(); b.text(n); b.sp(); b.open(); b.atom(1); b.sp(); b.text(loc.String()); b.close(); b.close()
	}
	for _, c := range regexCandidates(text) {
		addRe(c)
	}
	for _, v := range params {
		bv := influxql.BindValue(v)
		if bv.TokenType() == influxql.REGEX {
			addRe(bv.Value())
		}
		if bv.TokenType() == influxql.STRING {
			addLoc(bv.Value())
		}
	}
	if strings.Contains(strings.ToLower(text), "tz") {
		s := influxql.NewScanner(strings.NewReader(text))
		for i := 0; i < len(text)+2; i++ {
			tok, _, lit := s.Scan()
			// no stop at EOF: a NUL rune reads as EOF in the middle of the text and the parser may go on past it
			if tok == influxql.STRING {
				addLoc(lit)
			}
		}
	}
	b.close()
	return b.String()
}

func withOracles(text string, params map[string]interface{}, req string) string {
	t := oracleTable(text, params)
	if t == "()" {
		return req
	}
	return "(0 " + t + " " + req + ")"
}

func errSexp(err error) string {
	if pe, ok := err.(*influxql.ParseError); ok {
		var b sb
		b.open(); b.atom(1); b.sp(); b.atom(1); b.sp(); b.atom(int64(pe.Pos.Line)); b.sp(); b.atom(int64(pe.Pos.Char)); b.close()
		return b.String()
	}
	return "(1 0)"
}

// parseExprCase runs Parser.ParseExpr under recover and returns the response the
// model must give for op 5, plus the tree.
func parseExprCase(text string, params map[string]interface{}) (resp string, e influxql.Expr, err error, panicked interface{}) {
	func() {
		defer func() {
			if r := recover(); r != nil {
				panicked = r
			}
		}()
		p := influxql.NewParser(strings.NewReader(text))
		if params != nil {
			p.SetParams(params)
		}
		influxql.VerifResetPushback()
		e, err = p.ParseExpr()
	}()
	if panicked != nil {
		return "(2)", nil, nil, panicked
	}
	if err != nil {
		return errSexp(err), nil, err, nil
	}
	mt, mr := influxql.VerifMaxPushback()
	var b sb
	b.open(); b.atom(0); b.sp(); b.expr(e); b.sp(); b.boolean(mt <= 3); b.sp(); b.boolean(mr <= 3); b.close()
	return b.String(), e, nil, nil
}

func addParseExprCase(o *out, text string, params map[string]interface{}) (influxql.Expr, error, interface{}) {
	resp, e, err, pn := parseExprCase(text, params)
	req := "(5 " + textSexp(text) + " " + paramsSexp(params) + ")"
	full := withOracles(text, params, req)
	o.addCaseVM(full, resp, text, full == req && asciiNoFloat(text) && len(params) == 0)
	return e, err, pn
}

// parseStmtCase runs Parser.ParseStatement under recover: the response the model must give for op 9.
func parseStmtCase(text string, params map[string]interface{}) (resp string, st influxql.Statement, err error, panicked interface{}) {
	func() {
		defer func() {
			if r := recover(); r != nil {
				panicked = r
			}
		}()
		p := influxql.NewParser(strings.NewReader(text))
		if params != nil {
			p.SetParams(params)
		}
		influxql.VerifResetPushback()
		st, err = p.ParseStatement()
	}()
	if panicked != nil {
		return "(2)", nil, nil, panicked
	}
	if err != nil {
		return errSexp(err), nil, err, nil
	}
	mt, mr := influxql.VerifMaxPushback()
	var b sb
	b.open(); b.atom(0); b.sp(); b.stmt(st); b.sp(); b.boolean(mt <= 3); b.sp(); b.boolean(mr <= 3); b.close()
	return b.String(), st, nil, nil
}

func addParseStmtCase(o *out, text string, params map[string]interface{}) (influxql.Statement, error, interface{}) {
	resp, st, err, pn := parseStmtCase(text, params)
	req := "(9 " + textSexp(text) + " " + paramsSexp(params) + ")"
	full := withOracles(text, params, req)
	o.addCaseVM(full, resp, text, full == req && asciiNoFloat(text) && len(params) == 0)
	return st, err, pn
}

func parseQueryCase(text string, params map[string]interface{}) (resp string, q *influxql.Query, err error, panicked interface{}) {
	func() {
		defer func() {
			if r := recover(); r != nil {
				panicked = r
			}
		}()
		p := influxql.NewParser(strings.NewReader(text))
		if params != nil {
			p.SetParams(params)
		}
		influxql.VerifResetPushback()
		q, err = p.ParseQuery()
	}()
	if panicked != nil {
		return "(2)", nil, nil, panicked
	}
	if err != nil {
		return errSexp(err), nil, err, nil
	}
	mt, mr := influxql.VerifMaxPushback()
	var b sb
	b.open(); b.atom(0); b.sp(); b.open()
	for i, s := range q.Statements {
		if i > 0 {
			b.sp()
		}
		b.stmt(s)
	}
	b.close(); b.sp(); b.boolean(mt <= 3); b.sp(); b.boolean(mr <= 3); b.close()
	return b.String(), q, nil, nil
}

func addParseQueryCase(o *out, text string, params map[string]interface{}) (*influxql.Query, error, interface{}) {
	resp, q, err, pn := parseQueryCase(text, params)
	req := "(10 " + textSexp(text) + " " + paramsSexp(params) + ")"
	full := withOracles(text, params, req)
	o.addCaseVM(full, resp, text, full == req && asciiNoFloat(text) && len(params) == 0)
	return q, err, pn
}

// addPrintCase: stmt.String() vs the model's printer (op 11)
func addPrintCase(o *out, st influxql.Statement) {
	d := stmtSexp(st)
	s := st.String()
	o.addCaseVM("(11 "+d+")", textSexp(s), "String() of "+s, asciiNoFloat(s))
}

func propParseCorpus(o *out, r *rng, thorough bool) {
	for _, s := range loadCorpus("statements.json") {
		st, err, _ := addParseStmtCase(o, s, nil)
		addParseQueryCase(o, s, nil)
		if err == nil {
			addPrintCase(o, st)
		}
	}
}

func init() { props["parsecorpus"] = propParseCorpus }
