package main

import (
	"fmt"
	"strings"
	"unicode/utf8"

	"github.com/influxdata/influxql"
)

// C06: quoting helpers invert the lexer and cannot be broken out of.

func expressible(s string) bool { return utf8.ValidString(s) && !strings.ContainsAny(s, "\x00\r") }

func scanTokens(text string, max int) (toks []influxql.Token, lits []string) {
	sc := influxql.NewScanner(strings.NewReader(text))
	for i := 0; i < max; i++ {
		tok, _, lit := sc.Scan()
		toks = append(toks, tok)
		lits = append(lits, lit)
		if tok == influxql.EOF {
			break
		}
	}
	return
}

func textsSexp(ss []string) string {
	var b sb
	b.texts(ss)
	return b.String()
}

func c06One(o *out, s string, tag string) {
	o.count(tag)
	qs := influxql.QuoteString(s)
	qi := influxql.QuoteIdent(s)
	need := influxql.IdentNeedsQuotes(s)
	vm := asciiNoFloat(s)
	o.addCaseVM("(23 "+textSexp(s)+")", textSexp(qs), "QuoteString "+s, vm)
	o.addCaseVM("(24 "+textsSexp([]string{s})+")", textSexp(qi), "QuoteIdent "+s, vm)
	b := "0"
	if need {
		b = "1"
	}
	o.addCaseVM("(25 "+textSexp(s)+")", b, "IdentNeedsQuotes "+s, vm)
	rp := map[string]interface{}{"op": "quote", "text": s}
	if expressible(s) {
		o.checked()
		toks, lits := scanTokens(qs, 3)
		if len(toks) != 2 || toks[0] != influxql.STRING || lits[0] != s || toks[1] != influxql.EOF {
			o.fail("", fmt.Sprintf("QuoteString(%q) = %q scans as %v %q, not as one STRING with that value", s, qs, toks, lits), rp)
		}
		lexOne(o, qs+" tail", "quoted", false)
		o.checked()
		toks, lits = scanTokens(qi, 3)
		if len(toks) != 2 || toks[0] != influxql.IDENT || lits[0] != s || toks[1] != influxql.EOF {
			o.fail("", fmt.Sprintf("QuoteIdent(%q) = %q scans as %v %q, not as one IDENT with that value", s, qi, toks, lits), rp)
		}
		lexOne(o, qi+" tail", "quoted", false)
		// ... and directly followed by text that could continue a name: the quoted identifier ends at its closing quote
		for _, tail := range []string{"tail", "_", "9", "\"more\"", ".x", "$p"} {
			if !strings.HasPrefix(qi, "\"") {
				break // written bare: what follows continues the name
			}
			o.checked()
			toks, lits = scanTokens(qi+tail, 3)
			lexOne(o, qi+tail, "quoted-tight", false)
			if len(toks) < 2 || toks[0] != influxql.IDENT || lits[0] != s {
				o.fail("", fmt.Sprintf("QuoteIdent(%q) directly followed by %q scans as %v %q: the identifier does not end at its closing quote", s, tail, toks, lits), rp)
			}
		}
		if s != "" {
			o.checked()
			toks, lits = scanTokens(s, 3)
			bare := len(toks) == 2 && toks[0] == influxql.IDENT && lits[0] == s && toks[1] == influxql.EOF && !strings.HasPrefix(s, "\"")
			if bare == need {
				o.fail("", fmt.Sprintf("IdentNeedsQuotes(%q) = %v but written bare it scans as %v %q", s, need, toks, lits), rp)
			}
		}
	}
	// every string whatsoever: placed in a statement it yields one literal or a parse error, and alters nothing around it
	for _, tmpl := range []struct {
		text string
		lit  func(influxql.Statement) (string, bool)
	}{
		{"SELECT v FROM m WHERE x = %s AND y = 'sentinel' LIMIT 7", func(st influxql.Statement) (string, bool) {
			q := st.(*influxql.SelectStatement)
			and, ok := q.Condition.(*influxql.BinaryExpr)
			if !ok || and.Op != influxql.AND || q.Limit != 7 || len(q.Fields) != 1 || len(q.Sources) != 1 {
				return "", false
			}
			l, ok1 := and.LHS.(*influxql.BinaryExpr)
			r, ok2 := and.RHS.(*influxql.BinaryExpr)
			if !ok1 || !ok2 || r.String() != "y = 'sentinel'" || l.Op != influxql.EQ {
				return "", false
			}
			sl, ok := l.RHS.(*influxql.StringLiteral)
			if !ok {
				return "", false
			}
			return sl.Val, true
		}},
		{"CREATE USER u WITH PASSWORD %s WITH ALL PRIVILEGES", func(st influxql.Statement) (string, bool) {
			c, ok := st.(*influxql.CreateUserStatement)
			if !ok || c.Name != "u" || !c.Admin {
				return "", false
			}
			return c.Password, true
		}},
	} {
		text := fmt.Sprintf(tmpl.text, qs)
		o.checked()
		q, err := influxql.ParseQuery(text)
		addParseQueryCase(o, text, nil)
		if err != nil {
			continue
		}
		if len(q.Statements) != 1 {
			o.fail("", fmt.Sprintf("the quoted value %q split %q into %d statements", s, text, len(q.Statements)), rp)
			continue
		}
		got, ok := tmpl.lit(q.Statements[0])
		if !ok {
			o.fail("", fmt.Sprintf("the quoted value %q altered the statement around it: %q parsed as %s", s, text, q.Statements[0].String()), rp)
		} else if expressible(s) && got != s {
			o.fail("", fmt.Sprintf("the quoted value %q arrived as %q", s, got), rp)
		}
	}
	// the text BEFORE the quoted value: a bare word written directly in front of it (no blank) is not absorbed - the
	// statement is rejected (two names in a row), never accepted with the word gone
	for _, pre := range []string{"pre", "x", "_", "AND", "time"} {
		text := fmt.Sprintf("SELECT v, %s%s FROM m WHERE y = 'sentinel' LIMIT 7", pre, qi)
		o.checked()
		q, err := influxql.ParseQuery(text)
		if s == "pre" || tag == "replay" {
			addParseQueryCase(o, text, nil)
		}
		if err == nil {
			o.fail("C06-word-absorbed", fmt.Sprintf("the bare word %q directly before the quoted identifier %s vanished: %q parsed as %s", pre, qi, text, q.String()), rp)
		}
		text = fmt.Sprintf("SELECT v FROM m WHERE y = %s%s LIMIT 7", pre, qs)
		o.checked()
		if q, err := influxql.ParseQuery(text); err == nil {
			o.fail("", fmt.Sprintf("the bare word %q directly before the quoted string %s: %q is accepted as %s", pre, qs, text, q.String()), rp)
		}
	}
	// as an identifier
	{
		text := fmt.Sprintf("SELECT v FROM %s WHERE y = 'sentinel' LIMIT 7", qi)
		o.checked()
		q, err := influxql.ParseQuery(text)
		addParseQueryCase(o, text, nil)
		if err == nil {
			ok := len(q.Statements) == 1
			if ok {
				sel, isSel := q.Statements[0].(*influxql.SelectStatement)
				ok = isSel && sel.Limit == 7 && sel.Condition != nil && sel.Condition.String() == "y = 'sentinel'" && len(sel.Sources) == 1
				if ok {
					m, isM := sel.Sources[0].(*influxql.Measurement)
					ok = isM && (!expressible(s) || (m.Name == s && m.Database == "" && m.RetentionPolicy == "" && m.Regex == nil))
				}
			}
			if !ok {
				o.fail("", fmt.Sprintf("the quoted identifier %q altered the statement around it: %q parsed as %s", s, text, q.String()), rp)
			}
		} else if expressible(s) {
			o.fail("", fmt.Sprintf("QuoteIdent(%q) is rejected as a measurement name: %v", s, err), rp)
		}
	}
}

func c06Segments(o *out, segs []string) {
	given := append([]string(nil), segs...)
	qi := influxql.QuoteIdent(segs...)
	// the list that was handed in is the caller's: it reads as before, and quoting it again gives the same text
	o.checked()
	if strings.Join(segs, "\x00") != strings.Join(given, "\x00") || influxql.QuoteIdent(segs...) != qi {
		o.fail("", fmt.Sprintf("QuoteIdent(%q...) left its argument as %q; quoted again it gives %q, the first time %q", given, segs, influxql.QuoteIdent(given...), qi),
			map[string]interface{}{"op": "quote_segments", "text": strings.Join(given, "\x1f")})
		copy(segs, given)
	}
	vm := true
	for _, s := range segs {
		vm = vm && asciiNoFloat(s)
	}
	o.addCaseVM("(24 "+textsSexp(segs)+")", textSexp(qi), "QuoteIdent "+strings.Join(segs, "|"), vm)
	o.count(fmt.Sprintf("segments=%d", len(segs)))
	for _, s := range segs {
		if !expressible(s) {
			return
		}
	}
	if len(segs) < 1 || len(segs) > 3 || segs[len(segs)-1] == "" || (len(segs) >= 2 && segs[0] == "") {
		return
	}
	o.checked()
	text := "SELECT v FROM " + qi + " WHERE y = 1"
	st, err := influxql.ParseStatement(text)
	addParseStmtCase(o, text, nil)
	rp := map[string]interface{}{"op": "quote_segments", "text": strings.Join(segs, "\x1f")}
	if err != nil {
		o.fail("", fmt.Sprintf("QuoteIdent(%q) = %q is rejected as a source: %v", segs, qi, err), rp)
		return
	}
	m, ok := st.(*influxql.SelectStatement).Sources[0].(*influxql.Measurement)
	var want [3]string
	switch len(segs) {
	case 1:
		want = [3]string{"", "", segs[0]}
	case 2:
		want = [3]string{"", segs[0], segs[1]}
	default:
		want = [3]string{segs[0], segs[1], segs[2]}
	}
	if !ok || m.Database != want[0] || m.RetentionPolicy != want[1] || m.Name != want[2] {
		o.fail("", fmt.Sprintf("QuoteIdent(%q) = %q parsed as database %q policy %q name %q", segs, qi, m.Database, m.RetentionPolicy, m.Name), rp)
	}
}

func propC06(o *out, r *rng, thorough bool) {
	special := []rune{'\'', '"', '\\', '\n', '\r', 0, ' ', '\t', '/', '$', ';', '-', '*', '.', ',', '(', ')', '=', 'a', 'Z', '_', '0', '9', 'n', 0xFFFD, 0x212A, 0x130, 0x17F, 0xE9, 0x65E5, 0x1F600, 0x7F, 0x1, 0x85, 0x2028, 0xFEFF, 0x200B, 0xA0}
	// every single rune of the special alphabet and every pair; every ASCII rune
	for c := rune(0); c < 128; c++ {
		c06One(o, string(c), "ascii")
	}
	for _, a := range special {
		for _, b := range special {
			c06One(o, string([]rune{a, b}), "pair")
		}
	}
	// code points a text layer might treat specially (byte order mark, zero width, bidi and format controls, line and
	// paragraph separators, non-breaking and exotic spaces, noncharacters, private use, combining marks, the last
	// code point): alone, between letters, next to each quote and the escape character
	for _, c := range []rune{0x2018, 0x2019, 0x201C, 0x201D, 0x00B4, 0x0060, 0x2032, 0x2033, 0xFF07, 0xFF02, 0x02BC, 0xFEFF, 0xFFFE, 0xFFFF, 0xFFFD, 0xFFFC, 0x200B, 0x200C, 0x200D, 0x200E, 0x200F, 0x202A, 0x202E, 0x2060, 0x2066, 0x2069, 0x061C, 0x180E, 0x00AD, 0x2028, 0x2029, 0x0085,
		0x00A0, 0x1680, 0x2000, 0x2003, 0x202F, 0x205F, 0x3000, 0x0301, 0x0300, 0xFE0F, 0xFE00, 0x1F3FB, 0xE000, 0xF8FF, 0xD7FF, 0x10000, 0x10FFFF, 0xFDD0, 0x1D173, 0x7F, 0x80, 0x9F, 0x1B, 0x08, 0x0B, 0x0C} {
		for _, form := range []string{"%c", "a%cb", "%c%c", "'%c", "%c'", "\"%c", "%c\"", "\\%c", "%c\\", " %c ", "%c.x", "x.%c", "1%c", "_%c"} {
			c06One(o, strings.Replace(form, "%c", string(c), -1), "codepoint")
		}
	}
	// every length up to a few hundred, made of runes that all need an escape, or all but the first or the last (a
	// value that doubles in size when quoted)
	for n := 0; n <= 260; n++ {
		if n > 70 && n%8 > 2 && n != 127 && n != 129 && n != 255 && n != 257 {
			continue
		}
		for _, u := range []string{"\\", "'", "\"", "\n", "é", "a"} {
			c06One(o, strings.Repeat(u, n), "length")
			if n > 0 {
				c06One(o, strings.Repeat(u, n-1)+"x", "length")
				c06One(o, "x"+strings.Repeat(u, n-1), "length")
			}
		}
	}
	for _, w := range []string{"it\u2019s", "x\u2019 OR \u20181\u2019=\u20181", "\u201cquoted\u201d", "a\u2018b\u201cc", "\u2019", "\u201d; DROP DATABASE d; --"} {
		c06One(o, w, "typographic")
	}
	words := []string{"", "select", "SELECT", "SeLeCt", "from", "time", "true", "FALSE", "and", "or", "ſelect", "KelvinK", "a.b", "a..b", "1abc", "abc1", "_x", "x-y", "with'single", "with\"double", "back\\slash",
		"new\nline", "\\n", "\\'", "\\\"", "\\\\", "'", "''", "\"\"", "a\"b\"c", "'; DROP DATABASE d; --", "\" OR \"\"=\"", "x' OR 'y", "日本語", "héllo", "😀", "\xff", "\xc3", "a\xffb", "trailing\\", "\\", "a b", " lead", "trail ", "tab\there"}
	for _, kw := range []string{"ALL", "ALTER", "KEY", "keys", "Duration", "inf", "INTO", "tag", "FIELD", "measurement", "limit", "group", "by"} {
		words = append(words, kw, strings.ToLower(kw), strings.ToUpper(kw))
	}
	for _, w := range words {
		c06One(o, w, "word")
		o.sample(w)
	}
	n := 800
	if thorough {
		n = 100000
	}
	for i := 0; i < n; i++ {
		var rs []rune
		for j := 0; j < r.intn(10); j++ {
			rs = append(rs, pick(r, special))
		}
		s := string(rs)
		if r.chance(1, 8) {
			s += pick(r, []string{"\xff", "\xc3\x28", "\xe2\x82"})
		}
		c06One(o, s, "random")
		o.nontrivial(s)
	}
	// (segment lists whose dotted spellings coincide - a dot inside a segment - are different lists; each list is
	// quoted twice in the run, the second time after every other list, in the opposite order)
	pool := []string{"db", "rp", "m", "", "my db", "a.b", "select", "q\"t", "x\\y", "日本", "1st", "with space", "a", "b", "b.m", "a.b.m", ".", "a."}
	for pass := 0; pass < 2; pass++ {
		for i := range pool {
			a := pool[i]
			if pass == 1 {
				a = pool[len(pool)-1-i]
			}
			c06Segments(o, []string{a})
			for j := range pool {
				b := pool[j]
				if pass == 1 {
					b = pool[len(pool)-1-j]
				}
				c06Segments(o, []string{a, b})
				for _, c := range pool {
					if pass == 1 && len(a)+len(b)+len(c) > 8 {
						continue
					}
					c06Segments(o, []string{a, b, c})
				}
			}
		}
	}
}

func init() {
	props["C06"] = propC06
	replayers["quote"] = func(o *out, rp map[string]interface{}) { c06One(o, rpStr(rp, "text"), "replay") }
	replayers["quote_segments"] = func(o *out, rp map[string]interface{}) { c06Segments(o, strings.Split(rpStr(rp, "text"), "\x1f")) }
}
