#!/bin/sh
# usage: runprop.sh <prop> [tier]  — build harness+runner, run, diff
set -e
cd /verif
export GOFLAGS=-mod=mod GOPROXY=off GOSUMDB=off GOTOOLCHAIN=local GOCACHE=/verif/.cache/go CGO_ENABLED=0
(cd harness && go build -tags verif -o ../.build/harness .)
python3 - <<'PY'
import sys; sys.argv=['check']
import importlib.machinery, importlib.util
l=importlib.machinery.SourceFileLoader('chk','/verif/check'); spec=importlib.util.spec_from_loader('chk',l); m=importlib.util.module_from_spec(spec); l.exec_module(m)
m.build_runner()
PY
rm -rf .build/out/$1; .build/harness $1 -tier ${2:-quick} -out .build/out/$1
cut -f1 .build/out/$1/cases.txt | .build/runner/runner .build/tables > .build/out/$1/model.txt
python3 - "$1" <<'PY'
import sys
p=sys.argv[1]
cases=[l.rstrip('\n').split('\t') for l in open('/verif/.build/out/%s/cases.txt'%p)]
model=open('/verif/.build/out/%s/model.txt'%p).read().split('\n')
bad=0
for i,c in enumerate(cases):
    if model[i]!=c[1]:
        bad+=1
        if bad<=int(__import__('os').environ.get('SHOW','6')):
            print('MISMATCH', c[2]); print('  impl ', c[1][:600]); print('  model', model[i][:600])
print(len(cases),'cases',bad,'mismatches')
PY
tail -3 .build/out/$1/direct.txt 2>/dev/null | cut -c1-400
