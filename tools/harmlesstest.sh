#!/bin/bash
# usage: harmlesstest.sh <dir with patch.diff of a behaviour-preserving rewrite> <prop> [<prop>...]
# 1. confirms in a scratch worktree that the patch applies, builds with and without the hook tag, and keeps the suite green
# 2. applies it to /repo, runs the quick checks named, undoes it.  A sound check stays silent (exit 0, no VIOLATION).
set -u
D=$1; shift
export GOFLAGS=-mod=mod GOPROXY=off GOSUMDB=off GOTOOLCHAIN=local
W=/tmp/harmlessverify_$$
git -C /repo worktree add --detach $W HEAD >/dev/null 2>&1
(cd $W && git apply $D/patch.diff) || { echo "PATCH DOES NOT APPLY"; git -C /repo worktree remove --force $W; exit 2; }
(cd $W && go build ./... && go build -tags verif ./... ) >/tmp/harmless_build.log 2>&1; build=$?
(cd $W && go test -vet=off -count=1 ./... >/tmp/harmless_suite.log 2>&1); suite=$?
git -C /repo worktree remove --force $W
echo "harmless $(basename $D): builds exit=$build (want 0), suite on patched tree exit=$suite (want 0)"
cd /verif
git -C /repo apply $D/patch.diff || exit 2
for p in "$@"; do
  out=$(./check $p --tier quick 2>&1); rc=$?
  v=$(echo "$out" | grep -c '^VIOLATION')
  echo "  check $p: exit=$rc violations=$v :: $(echo "$out" | grep '^VIOLATION' | head -2 | tr '\n' ' ') $(echo "$out" | tail -1 | cut -c1-160)"
done
git -C /repo checkout -- .
git -C /repo status --short
