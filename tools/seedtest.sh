#!/bin/bash
# usage: seedtest.sh <seed dir with patch.diff, demo_test.go, meta.json> <prop> [<prop>...]
# 1. confirms the seed in a scratch worktree (suite green with patch, demo fails with / passes without)
# 2. applies it to /repo, runs the quick checks named, undoes it.  Prints one line per check.
set -u
D=$1; shift
export GOFLAGS=-mod=mod GOPROXY=off GOSUMDB=off GOTOOLCHAIN=local
W=/tmp/seedverify_$$
git -C /repo worktree add --detach $W HEAD >/dev/null 2>&1
cp $D/demo_test.go $W/zz_demo_test.go
(cd $W && go test -vet=off -count=1 -run 'Test' . >/tmp/seed_demo_clean.log 2>&1); clean=$?
(cd $W && git apply $D/patch.diff) || { echo "PATCH DOES NOT APPLY"; git -C /repo worktree remove --force $W; exit 2; }
(cd $W && go test -vet=off -count=1 . >/tmp/seed_demo_patched.log 2>&1); patched=$?
rm $W/zz_demo_test.go
(cd $W && go test -vet=off -count=1 ./... >/tmp/seed_suite.log 2>&1); suite=$?
git -C /repo worktree remove --force $W
echo "seed $(basename $D): demo on clean tree exit=$clean (want 0), demo+suite on patched tree exit=$patched (want !=0), suite alone on patched tree exit=$suite (want 0)"
cd /verif
git -C /repo apply $D/patch.diff || exit 2
for p in "$@"; do
  out=$(./check $p --tier quick 2>&1); rc=$?
  v=$(echo "$out" | grep -c '^VIOLATION')
  echo "  check $p: exit=$rc violations=$v :: $(echo "$out" | grep '^VIOLATION' | head -2 | tr '\n' ' ') $(echo "$out" | tail -1 | cut -c1-160)"
done
git -C /repo checkout -- .
git -C /repo status --short
