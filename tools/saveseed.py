#!/usr/bin/env python3
"""saveseed.py <seedout dir> <name> <caught_by comma list or 'none'> [note]"""
import json, os, shutil, sys
src, name, caught = sys.argv[1], sys.argv[2], sys.argv[3]
note = sys.argv[4] if len(sys.argv) > 4 else ""
dst = os.path.join("/verif/seeded", name)
os.makedirs(dst, exist_ok=True)
for f in ("patch.diff", "demo_test.go"):
    shutil.copy(os.path.join(src, f), dst)
m = json.load(open(os.path.join(src, "meta.json")))
m["confirmed"] = ("in a scratch worktree of /repo: existing suite green with the patch; demo test fails with the patch and passes without it "
                  "(tools/seedtest.sh); then applied to /repo with git apply, the named quick checks run, and undone with git checkout")
m["caught_by"] = [] if caught == "none" else caught.split(",")
if note:
    m["note"] = note
json.dump(m, open(os.path.join(dst, "meta.json"), "w"), indent=1)
print("saved", dst)
