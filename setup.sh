#!/bin/sh
# Run once after a fresh restore, offline: build the framework from files on disk only.
set -e
cd "$(dirname "$0")"
export GOFLAGS=-mod=mod GOPROXY=off GOSUMDB=off GOTOOLCHAIN=local GOCACHE="$PWD/.cache/go" CGO_ENABLED=0
# hygiene gate (also run by every check)
if grep -rnE '^\s*(Axiom|Parameter|Conjecture|Admitted|Admit Obligations)\b|Unset Guard Checking|bypass_check' coq --include='*.v'; then
  echo "forbidden vernacular found" >&2; exit 1
fi
# full .vo build of the Coq development, from clean
cd coq
coq_makefile -f _CoqProject -o Makefile >/dev/null
make clean >/dev/null 2>&1 || true
timeout 3000 make -j16
cd ..
# extraction + OCaml runner, harness (from /repo's current tree, hooks on), oracle tables
mkdir -p .build/runner
(cd .build/runner && coqc -Q ../../coq InfluxQL ../../coq/Extract/Extract.v -o Extract.vo && cp ../../runner/driver.ml . \
  && ocamlfind ocamlopt -package zarith -linkpkg -O2 -w -a model.mli model.ml driver.ml -o runner)
cp /repo/go.sum harness/go.sum
(cd harness && go build -tags verif -o ../.build/harness .)
.build/harness tables -out .build/tables
# C17: static footprint analysis and the concurrent workload (the package as it ships, with and without -race)
(cd footprint && go build -o ../.build/footprint .)
cp /repo/go.sum race/go.sum
(cd race && CGO_ENABLED=1 go build -race -o ../.build/race_on . && go build -o ../.build/race_off .)
echo "setup ok"
